package e5path

import (
	"fmt"
	"go/ast"
	"go/constant"
	"go/token"
	"go/types"
	"sort"
	"strings"

	"golang.org/x/tools/go/ssa"
	"golang.org/x/tools/go/types/typeutil"

	"verif/sa/internal/load"
	"verif/sa/internal/oblig"
)

// pathCounts is what happened on one structured path through a loop body.
type pathCounts struct {
	errs, accepts, delegates int
	done                     bool
}

// enumeratePaths walks a loop body (if/else, blocks, continue; nested loops count as delegation)
// and returns the outcome of every structured path, or a reason why it cannot.
func enumeratePaths(body []ast.Stmt, classify func(ast.Stmt) string, alwaysTrue func(ast.Expr) bool, judged func(ast.Stmt) bool) ([]pathCounts, string) {
	undecided := ""
	var walk func(stmts []ast.Stmt, in []pathCounts) []pathCounts
	walk = func(stmts []ast.Stmt, in []pathCounts) []pathCounts {
		cur := in
		for _, st := range stmts {
			var live, finished []pathCounts
			for _, pt := range cur {
				if pt.done {
					finished = append(finished, pt)
				} else {
					live = append(live, pt)
				}
			}
			if len(live) == 0 {
				return cur
			}
			switch s := st.(type) {
			case *ast.AssignStmt, *ast.ExprStmt, *ast.IncDecStmt:
				switch classify(st) {
				case "error":
					for i := range live {
						live[i].errs++
					}
				case "accept":
					for i := range live {
						live[i].accepts++
					}
				}
			case *ast.BranchStmt:
				if s.Tok == token.CONTINUE {
					for i := range live {
						live[i].done = true
					}
				} else {
					undecided = "branch statement " + s.Tok.String()
				}
			case *ast.IfStmt:
				if s.Init != nil {
					live = walk([]ast.Stmt{s.Init}, live)
				}
				thenP := walk(s.Body.List, append([]pathCounts(nil), live...))
				var elseP []pathCounts
				if !alwaysTrue(s.Cond) {
					switch e := s.Else.(type) {
					case nil:
						elseP = append([]pathCounts(nil), live...)
					case *ast.BlockStmt:
						elseP = walk(e.List, append([]pathCounts(nil), live...))
					case *ast.IfStmt:
						elseP = walk([]ast.Stmt{e}, append([]pathCounts(nil), live...))
					}
				}
				live = append(thenP, elseP...)
			case *ast.BlockStmt:
				live = walk(s.List, live)
			case *ast.SwitchStmt:
				// each clause is one way through (clauses are tried in order; a missing default lets the item pass on)
				var outP []pathCounts
				hasDefault := false
				for _, c := range s.Body.List {
					cc := c.(*ast.CaseClause)
					if cc.List == nil {
						hasDefault = true
					}
					for _, b := range cc.Body {
						if br, ok := b.(*ast.BranchStmt); ok && br.Tok == token.FALLTHROUGH {
							undecided = "fallthrough"
						}
					}
					outP = append(outP, walk(cc.Body, append([]pathCounts(nil), live...))...)
				}
				if !hasDefault {
					outP = append(outP, append([]pathCounts(nil), live...)...)
				}
				live = outP
			case *ast.RangeStmt, *ast.ForStmt:
				// only a loop that is itself judged by this rule takes the item over
				if judged(st) {
					for i := range live {
						live[i].delegates++
					}
				}
			case *ast.DeclStmt, *ast.EmptyStmt:
			default:
				undecided = fmt.Sprintf("statement %T", st)
			}
			cur = append(finished, live...)
		}
		return cur
	}
	out := walk(body, []pathCounts{{}})
	return out, undecided
}

func typeStr(info *types.Info, e ast.Expr) string {
	if tv, ok := info.Types[e]; ok && tv.Type != nil {
		return tv.Type.String()
	}
	return ""
}

// MergerLoops (R5.3, C07 clause 2): on every structured path through each loop of the merger exactly
// one thing happens to the item: one error is appended, or the item is merged (accepted), or it is
// handed to an inner loop. An item can be neither dropped silently nor merged together with an error.
func MergerLoops(p *load.Prog, r *oblig.Report, rule string) {
	fd, pk := p.FuncDecl("transformer", "TransformModuleFilesToModel")
	if fd == nil {
		r.Unknown(rule, "anchor:TransformModuleFilesToModel", "-", "function not found")
		return
	}
	info := pk.TypesInfo
	// errors.As(err, &t) is total when every error TransformModularDSLToProto returns has t's type
	asTotal := errorsAsTotal(p)
	alwaysTrue := func(e ast.Expr) bool {
		call, ok := ast.Unparen(e).(*ast.CallExpr)
		if !ok {
			return false
		}
		fn, _ := typeutil.Callee(info, call).(*types.Func)
		return fn != nil && fn.Pkg() != nil && fn.Pkg().Path() == "errors" && fn.Name() == "As" && asTotal
	}
	var classify func(st ast.Stmt) string
	helperDepth := 0
	classify = func(st ast.Stmt) string {
		// helper(…) as a statement: what the helper's body does to the item (its top-level statements)
		if es, isExpr := st.(*ast.ExprStmt); isExpr {
			if call, isCall := es.X.(*ast.CallExpr); isCall {
				// a function or a method of the package (an error collector's add, a merge helper)
				if hf, _ := typeutil.Callee(info, call).(*types.Func); hf != nil && hf.Pkg() == pk.Types && helperDepth < 3 {
					if hf.Origin() != nil {
						hf = hf.Origin()
					}
					for _, hd := range p.WithHelpers(pk, fd, 3)[1:] {
						if info.Defs[hd.Name] == hf {
							helperDepth++
							for _, hs := range hd.Body.List {
								if k := classify(hs); k != "" {
									helperDepth--
									return k
								}
							}
							helperDepth--
						}
					}
				}
			}
			return ""
		}
		as, ok := st.(*ast.AssignStmt)
		if !ok || len(as.Lhs) != 1 || len(as.Rhs) != 1 {
			return ""
		}
		lt := typeStr(info, as.Lhs[0])
		if call, ok := as.Rhs[0].(*ast.CallExpr); ok {
			if sel, ok := call.Fun.(*ast.SelectorExpr); ok && sel.Sel.Name == "Append" && strings.Contains(lt, "multierror.Error") {
				return "error"
			}
			// acc = helper(acc, …): the accumulator is threaded through a helper that appends to it
			if strings.Contains(lt, "multierror.Error") && len(call.Args) > 0 && types.ExprString(call.Args[0]) == types.ExprString(as.Lhs[0]) {
				return "error"
			}
			if id, ok := call.Fun.(*ast.Ident); ok && id.Name == "append" && strings.HasSuffix(lt, "[]*github.com/openfga/api/proto/openfga/v1.TypeDefinition") {
				return "accept"
			}
			// conflicts = append(conflicts, <one error>): a helper that collects the conflicts of its items in a list
			// of errors, which its caller hands to the accumulator
			if id, ok := call.Fun.(*ast.Ident); ok && id.Name == "append" && len(call.Args) == 2 && !call.Ellipsis.IsValid() {
				if tv, ok := info.Types[as.Lhs[0]]; ok {
					if sl, ok := tv.Type.Underlying().(*types.Slice); ok {
						et := sl.Elem()
						errT := types.Universe.Lookup("error").Type().Underlying().(*types.Interface)
						if types.Implements(et, errT) {
							return "error"
						}
					}
				}
			}
		}
		switch l := as.Lhs[0].(type) {
		case *ast.IndexExpr:
			// conditions[name] = condition ; original.Relations[name] = relation
			if strings.HasSuffix(lt, "openfga/v1.Condition") || strings.HasSuffix(lt, "openfga/v1.Userset") {
				_ = l
				return "accept"
			}
		case *ast.SelectorExpr:
			if l.Sel.Name == "Relations" && strings.Contains(lt, "openfga/v1.Userset") {
				return "accept"
			}
		}
		return ""
	}
	// judged: loops over slices of model items. Map-key collection loops are pure collectors, loops over
	// a list of errors annotate diagnostics; neither handles an item of the merge.
	judged := func(st ast.Stmt) bool {
		rs, ok := st.(*ast.RangeStmt)
		if !ok {
			return false
		}
		tv, ok := info.Types[rs.X]
		if !ok {
			return false
		}
		sl, isSlice := tv.Type.Underlying().(*types.Slice)
		if !isSlice {
			return false
		}
		if types.Identical(sl.Elem(), types.Universe.Lookup("error").Type()) {
			return false
		}
		return true
	}
	n := 0
	// the merger's own loops, and those of the unexported helpers it hands phases of the merge to
	var bodies []ast.Node
	for _, hd := range p.WithHelpers(pk, fd, 2) {
		if hd == fd || !ast.IsExported(hd.Name.Name) {
			bodies = append(bodies, hd.Body)
		}
	}
	inspectAll := func(f func(ast.Node) bool) {
		for _, b := range bodies {
			ast.Inspect(b, f)
		}
	}
	inspectAll(func(nd ast.Node) bool {
		rs, ok := nd.(*ast.RangeStmt)
		if !ok {
			return true
		}
		if !judged(rs) {
			return true
		}
		n++
		construct := "loop-outcomes:range " + types.ExprString(rs.X)
		paths, undecided := enumeratePaths(rs.Body.List, classify, alwaysTrue, judged)
		if undecided != "" {
			r.Unknown(rule, construct, p.Pos(rs.Pos()), "cannot enumerate the loop body: "+undecided)
			return true
		}
		hist := map[string]int{}
		bad := 0
		for _, pt := range paths {
			k := fmt.Sprintf("errors=%d merged=%d inner-loops=%d", pt.errs, pt.accepts, pt.delegates)
			hist[k]++
			okPath := (pt.errs == 1 && pt.accepts == 0) || (pt.errs == 0 && pt.accepts == 1) || (pt.errs == 0 && pt.accepts == 0 && pt.delegates >= 1)
			if !okPath {
				bad++
			}
		}
		var keys []string
		for k, v := range hist {
			keys = append(keys, fmt.Sprintf("%s ×%d", k, v))
		}
		sort.Strings(keys)
		if bad == 0 {
			r.OK(rule, construct, p.Pos(rs.Pos()), "path-enumeration", strings.Join(keys, "; "))
		} else {
			r.Bad(rule, construct, p.Pos(rs.Pos()), fmt.Sprintf("%d of %d structured paths through the loop body neither report exactly one error nor merge the item nor hand it to an inner loop (%s): a conflicting item is dropped silently, merged despite its error, or reported twice", bad, len(paths), strings.Join(keys, "; ")))
		}
		return true
	})
	if n == 0 {
		r.Unknown(rule, "loop-outcomes", p.Pos(fd.Pos()), "no loop found in the merger")
	}
}

// errorsAsTotal: every non-nil error TransformModularDSLToProto can return is a *multierror.Error.
func errorsAsTotal(p *load.Prog) bool {
	fn := p.Func("transformer", "TransformModularDSLToProto")
	if fn == nil {
		return false
	}
	return onlyMultierrors(fn, 0)
}

// onlyMultierrors: every non-nil error fn returns is a *multierror.Error — made here, or the error result of a
// repository helper with the same property.
func onlyMultierrors(fn *ssa.Function, depth int) bool {
	if depth > 3 {
		return false
	}
	ei := returnsError(fn)
	ok := true
	n := 0
	for _, b := range fn.Blocks {
		for _, in := range b.Instrs {
			ret, isRet := in.(*ssa.Return)
			if !isRet || ei < 0 || ei >= len(ret.Results) {
				continue
			}
			v := ret.Results[ei]
			if c, isC := v.(*ssa.Const); isC && c.IsNil() {
				continue
			}
			n++
			if mi, isMI := v.(*ssa.MakeInterface); isMI && strings.HasSuffix(mi.X.Type().String(), "go-multierror.Error") {
				continue
			}
			// acc.ErrorOrNil(): the accumulator itself (or nil)
			if call, isCall := v.(*ssa.Call); isCall {
				if c := call.Common().StaticCallee(); c != nil && c.Name() == "ErrorOrNil" && c.Pkg != nil && strings.Contains(c.Pkg.Pkg.Path(), "go-multierror") {
					continue
				}
			}
			if ex, isEx := v.(*ssa.Extract); isEx {
				if call, isCall := ex.Tuple.(*ssa.Call); isCall {
					if h := call.Common().StaticCallee(); h != nil && load.InRepo(h) && len(h.Blocks) > 0 && returnsError(h) == ex.Index && onlyMultierrors(h, depth+1) {
						continue
					}
				}
			}
			ok = false
		}
	}
	return ok && n > 0
}

// NeverPartial (R5.1, C07 clause 3): the model is returned only when the accumulator is empty and
// every return that carries an error has the nil constant as its first result.
func NeverPartial(p *load.Prog, r *oblig.Report, rule string) {
	fn := p.Func("transformer", "TransformModuleFilesToModel")
	if fn == nil {
		r.Unknown(rule, "anchor:TransformModuleFilesToModel", "-", "function not found")
		return
	}
	for _, b := range fn.Blocks {
		for _, in := range b.Instrs {
			ret, ok := in.(*ssa.Return)
			if !ok || len(ret.Results) != 2 {
				continue
			}
			errNil := false
			if c, isC := ret.Results[1].(*ssa.Const); isC && c.IsNil() {
				errNil = true
			}
			modelNil := false
			if c, isC := ret.Results[0].(*ssa.Const); isC && c.IsNil() {
				modelNil = true
			}
			if !errNil {
				if modelNil {
					r.OK(rule, "error-return-has-no-model", p.Pos(ret.Pos()), "constant", "return nil, err")
				} else {
					r.Bad(rule, "error-return-has-no-model", p.Pos(ret.Pos()), "a return that carries an error also returns a model: the caller receives a partial merge")
				}
				continue
			}
			guarded := false
			for _, ce := range DominatingConds(b) {
				if bo, isB := ce.Cond.(*ssa.BinOp); isB {
					if call, isCall := bo.X.(*ssa.Call); isCall {
						if bi, isBi := call.Common().Value.(*ssa.Builtin); isBi && bi.Name() == "len" && strings.HasSuffix(AccessPath(call.Common().Args[0]), ".Errors") {
							if c, isC := bo.Y.(*ssa.Const); isC && c.Int64() == 0 && ((bo.Op == token.NEQ && !ce.Branch) || (bo.Op == token.EQL && ce.Branch)) {
								guarded = true
							}
						}
					}
				}
			}
			if guarded {
				r.OK(rule, "success-guard:TransformModuleFilesToModel", p.Pos(ret.Pos()), "dominating-condition", "len(transformErrors.Errors) == 0")
			} else {
				r.Bad(rule, "success-guard:TransformModuleFilesToModel", p.Pos(ret.Pos()), "the merged model is returned without the guard len(transformErrors.Errors) == 0")
			}
		}
	}
}

// RejectionSites (C07 clause 2'): every merge error is one of the documented kinds of conflict and is
// raised under exactly the documented condition. kind → substrings that must occur among the
// renderings of the dominating conditions (the spec of "when is this a conflict").
type RejectionSpec struct {
	MsgPrefix string
	Requires  []string
}

func RejectionSites(p *load.Prog, r *oblig.Report, rule string, specs []RejectionSpec) {
	fn := p.Func("transformer", "TransformModuleFilesToModel")
	if fn == nil {
		r.Unknown(rule, "anchor:TransformModuleFilesToModel", "-", "function not found")
		return
	}
	seen := map[string]int{}
	{
		for _, li := range LiteralInstances(fn, "ModuleTransformationSingleError") {
			li := li
			b := li.Site
			al := li.Pos
			msg := "?"
			if mv, ok := li.Fields["Msg"]; ok {
				msg = msgText(li.Arg(mv))
			}
			var spec *RejectionSpec
			for i := range specs {
				if strings.HasPrefix(msg, specs[i].MsgPrefix) {
					spec = &specs[i]
				}
			}
			construct := "rejection-site:" + strings.TrimSpace(strings.SplitN(msg, "%", 2)[0])
			if spec == nil {
				r.Bad(rule, construct, p.Pos(al.Pos()), "a merge error of an undocumented kind ("+msg+") is raised: files that satisfy every documented rule may be rejected")
				continue
			}
			seen[spec.MsgPrefix]++
			var conds []string
			for _, ce := range DominatingConds(b) {
				conds = append(conds, stripUnique(renderCond(ce)))
			}
			if li.Inner != nil {
				for _, ce := range DominatingConds(li.Inner) {
					conds = append(conds, stripUnique(renderCond(ce)))
				}
			}
			missing := []string{}
			// a requirement "a|b" is met by either spelling (e.g. membership in a collected list or in the live map)
			for _, req := range spec.Requires {
				found := false
				for _, alt := range strings.Split(req, "|") {
					for _, c := range conds {
						if strings.Contains(c, alt) {
							found = true
						}
					}
				}
				if !found {
					missing = append(missing, req)
				}
			}
			if len(missing) == 0 {
				r.OK(rule, construct, p.Pos(al.Pos()), "guard-spec", strings.Join(spec.Requires, " && "))
			} else {
				sort.Strings(conds)
				r.Bad(rule, construct, p.Pos(al.Pos()), fmt.Sprintf("the '%s' error is not raised under the documented condition: missing {%s} among the dominating conditions {%s}", spec.MsgPrefix, strings.Join(missing, "; "), strings.Join(conds, "; ")))
			}
		}
	}
	for _, s := range specs {
		if seen[s.MsgPrefix] == 0 {
			r.Bad(rule, "rejection-site:"+s.MsgPrefix, p.Pos(fn.Pos()), "the documented conflict '"+s.MsgPrefix+"' is no longer detected anywhere in the merger")
		}
	}
}

func msgText(v ssa.Value) string {
	switch x := v.(type) {
	case *ssa.Const:
		if x.Value != nil {
			s := x.Value.ExactString()
			return strings.Trim(s, "\"")
		}
	case *ssa.BinOp:
		return msgText(x.X)
	case *ssa.Call:
		if c := x.Common().StaticCallee(); c != nil && c.Name() == "Sprintf" {
			return msgText(x.Common().Args[0])
		}
	}
	return "?"
}

func stripUnique(s string) string {
	var sb strings.Builder
	for i := 0; i < len(s); i++ {
		if strings.HasPrefix(s[i:], "‹") {
			j := strings.Index(s[i:], "›")
			if j > 0 {
				sb.WriteString("‹v›")
				i += j + len("›") - 1
				continue
			}
		}
		sb.WriteByte(s[i])
	}
	return sb.String()
}

// Attribution (C07 clause 5/6): every SourceInfo literal takes its File from the file whose parse
// produced the object it is attached to; the schema version of the returned model is the parameter.
func Attribution(p *load.Prog, r *oblig.Report, rule string) {
	fn := p.Func("transformer", "TransformModuleFilesToModel")
	if fn == nil {
		r.Unknown(rule, "anchor:TransformModuleFilesToModel", "-", "function not found")
		return
	}
	n := 0
	{
		for _, si := range StoresWithHelpers(fn) {
			si := si
			st := si.St
			al, ok := st.Val.(*ssa.Alloc)
			if !ok || structNameOf(al.Type()) != "SourceInfo" {
				continue
			}
			n++
			target := stripUnique(si.Path(st.Addr))
			file, rawFile := "?", "?"
			if fv, ok := litFields(al)["File"]; ok {
				file, rawFile = AccessPath(si.Arg(fv)), AccessPath(fv)
			}
			fileS := stripUnique(file)
			construct := "source-info:" + target
			// objects of the file being parsed in this iteration hang off the parse result (‹v›#0.…): File must be <module>.Name of the
			// module whose Contents were parsed; objects reached through the extension table hang off its lookup: File must be its key
			fromParse := strings.Contains(target, "#0.")
			switch {
			case fromParse && strings.HasSuffix(fileS, ".Name") && parsedContentsOf(fn, strings.TrimSuffix(file, ".Name")):
				r.OK(rule, construct, p.Pos(st.Pos()), "same-file", "File = Name of the module whose Contents were parsed")
			case !fromParse && (isExtensionKey(fn, file) || (st.Parent() != fn && isExtensionKey(st.Parent(), rawFile))):
				r.OK(rule, construct, p.Pos(st.Pos()), "same-file", "File = key under which the extension was filed")
			default:
				r.Bad(rule, construct, p.Pos(st.Pos()), "the source file recorded for "+target+" is "+fileS+", which is not the file whose parse produced that object")
			}
		}
	}
	if n == 0 {
		r.Unknown(rule, "source-info", p.Pos(fn.Pos()), "no SourceInfo literal found")
	}
	// schema version
	okSchema := false
	for _, b := range fn.Blocks {
		for _, in := range b.Instrs {
			if st, ok := in.(*ssa.Store); ok && strings.HasSuffix(AccessPath(st.Addr), ".SchemaVersion") {
				if prm, isP := st.Val.(*ssa.Parameter); isP && prm.Parent() == fn {
					okSchema = true
				} else {
					r.Bad(rule, "schema-version", p.Pos(st.Pos()), "the schema version of the merged model is "+AccessPath(st.Val)+", not the requested one")
					return
				}
			}
		}
	}
	if okSchema {
		r.OK(rule, "schema-version", p.Pos(fn.Pos()), "def-use", "SchemaVersion = parameter")
	} else {
		r.Bad(rule, "schema-version", p.Pos(fn.Pos()), "the requested schema version is never stored into the merged model")
	}
}

// parsedContentsOf: <owner>.Contents is an argument of the TransformModularDSLToProto call.
func parsedContentsOf(fn *ssa.Function, owner string) bool {
	for _, b := range fn.Blocks {
		for _, in := range b.Instrs {
			if call, ok := in.(*ssa.Call); ok {
				if c := call.Common().StaticCallee(); c != nil && c.Name() == "TransformModularDSLToProto" {
					if AccessPath(call.Common().Args[0]) == owner+".Contents" {
						return true
					}
				}
			}
		}
	}
	return false
}

// isExtensionKey: the value is the key used to look the extension list up in a map of slices of type definitions.
func isExtensionKey(fn *ssa.Function, file string) bool {
	for _, b := range fn.Blocks {
		for _, in := range b.Instrs {
			if lk, ok := in.(*ssa.Lookup); ok && AccessPath(lk.Index) == file && strings.Contains(lk.Type().String(), "TypeDefinition") {
				return true
			}
		}
	}
	return false
}

// FreshMembership (C07-8): the list a relation clash is tested against is declared inside the loop
// iteration that handles one extension and is filled from the live relation map of the base type.
func FreshMembership(p *load.Prog, r *oblig.Report, rule string) {
	fd, pk := p.FuncDecl("transformer", "TransformModuleFilesToModel")
	if fd == nil {
		r.Unknown(rule, "anchor:TransformModuleFilesToModel", "-", "function not found")
		return
	}
	info := pk.TypesInfo
	n := 0
	// the merger and the helpers of its package it hands parts of its work to
	for _, hd := range p.WithHelpers(pk, fd, 2) {
		n += freshMembershipIn(p, r, rule, info, hd.Body)
	}
	if n == 0 {
		r.Unknown(rule, "membership-list", p.Pos(fd.Pos()), "no membership test (slices.Contains on a collected list, or a lookup in the live relation map) found in the merger")
	}
}

func freshMembershipIn(p *load.Prog, r *oblig.Report, rule string, info *types.Info, fnBody *ast.BlockStmt) int {
	n := 0
	ast.Inspect(fnBody, func(nd ast.Node) bool {
		call, ok := nd.(*ast.CallExpr)
		if !ok {
			return true
		}
		fn, _ := typeutil.Callee(info, call).(*types.Func)
		if fn == nil || fn.Pkg() == nil || fn.Pkg().Path() != "slices" || fn.Name() != "Contains" || len(call.Args) != 2 {
			return true
		}
		id, ok := ast.Unparen(call.Args[0]).(*ast.Ident)
		if !ok {
			return true
		}
		obj := info.Uses[id]
		// every assignment to the list is classified: fresh (literal/make), fill (append of the key of a
		// range over a map, unconditional, in the block of the fresh declaration), accumulate (append of
		// the very variable that is tested), or other
		// the appended expression is the tested one when the text and every identifier's object agree
		identObjs := func(e ast.Expr) []types.Object {
			var out []types.Object
			ast.Inspect(e, func(m ast.Node) bool {
				if id, ok := m.(*ast.Ident); ok {
					out = append(out, info.Uses[id])
				}
				return true
			})
			return out
		}
		testedText, testedObjs := types.ExprString(call.Args[1]), identObjs(call.Args[1])
		sameAsTested := func(e ast.Expr) bool {
			if types.ExprString(e) != testedText {
				return false
			}
			objs := identObjs(e)
			if len(objs) != len(testedObjs) {
				return false
			}
			for i := range objs {
				if objs[i] == nil || objs[i] != testedObjs[i] {
					return false
				}
			}
			return true
		}
		var fresh *ast.AssignStmt
		var freshBlock *ast.BlockStmt
		filledFrom, other, accum, fills := "", "", 0, 0
		var walk func(blk *ast.BlockStmt)
		assignsTo := func(as *ast.AssignStmt) bool {
			for _, l := range as.Lhs {
				if lid, ok := l.(*ast.Ident); ok && (info.Defs[lid] == obj || info.Uses[lid] == obj) {
					return true
				}
			}
			return false
		}
		isFresh := func(e ast.Expr) bool {
			switch x := ast.Unparen(e).(type) {
			case *ast.CompositeLit:
				return len(x.Elts) == 0
			case *ast.CallExpr:
				if id, ok := x.Fun.(*ast.Ident); ok && id.Name == "make" {
					if _, isB := info.Uses[id].(*types.Builtin); isB && len(x.Args) >= 2 {
						if tv, ok := info.Types[x.Args[1]]; ok && tv.Value != nil && tv.Value.ExactString() == "0" {
							return true
						}
					}
				}
			}
			return false
		}
		appendOf := func(as *ast.AssignStmt) ast.Expr {
			if len(as.Lhs) != 1 || len(as.Rhs) != 1 {
				return nil
			}
			ap, ok := as.Rhs[0].(*ast.CallExpr)
			if !ok || len(ap.Args) != 2 || ap.Ellipsis.IsValid() {
				return nil
			}
			if id, ok := ap.Fun.(*ast.Ident); !ok || id.Name != "append" {
				return nil
			}
			if a0, ok := ap.Args[0].(*ast.Ident); !ok || info.Uses[a0] != obj {
				return nil
			}
			return ap.Args[1]
		}
		walk = func(blk *ast.BlockStmt) {
			for _, st := range blk.List {
				switch s := st.(type) {
				case *ast.AssignStmt:
					if !assignsTo(s) {
						continue
					}
					if len(s.Lhs) == 1 && len(s.Rhs) == 1 && isFresh(s.Rhs[0]) {
						if fresh == nil {
							fresh, freshBlock = s, blk
						}
						continue
					}
					if arg := appendOf(s); arg != nil {
						if sameAsTested(arg) {
							accum++
							continue
						}
					}
					other = p.Pos(s.Pos())
				case *ast.RangeStmt:
					// the fill loop: for k := range M { list = append(list, k) } with nothing else in the body
					if len(s.Body.List) == 1 {
						if as, ok := s.Body.List[0].(*ast.AssignStmt); ok && assignsTo(as) {
							arg := appendOf(as)
							kid, _ := s.Key.(*ast.Ident)
							aid, _ := arg.(*ast.Ident)
							tv, okT := info.Types[s.X]
							isMap := false
							if okT {
								_, isMap = tv.Type.Underlying().(*types.Map)
							}
							if arg != nil && kid != nil && aid != nil && info.Defs[kid] != nil && info.Uses[aid] == info.Defs[kid] && isMap && blk == freshBlock {
								fills++
								filledFrom = types.ExprString(s.X)
								continue
							}
							other = p.Pos(as.Pos())
							continue
						}
					}
					walk(s.Body)
				case *ast.SwitchStmt:
					for _, c := range s.Body.List {
						walk(&ast.BlockStmt{List: c.(*ast.CaseClause).Body})
					}
				default:
					ast.Inspect(st, func(m ast.Node) bool {
						if b, ok := m.(*ast.BlockStmt); ok {
							walk(b)
							return false
						}
						if as, ok := m.(*ast.AssignStmt); ok && assignsTo(as) {
							other = p.Pos(as.Pos())
						}
						return true
					})
				}
			}
		}
		walk(fnBody)
		if fresh == nil && other == "" {
			return true
		}
		n++
		construct := "membership-list:" + id.Name
		// the fresh declaration must sit inside a loop body that also contains the test
		inLoop := false
		if fresh != nil {
			ast.Inspect(fnBody, func(m ast.Node) bool {
				if rs, ok := m.(*ast.RangeStmt); ok && rs.Body.Pos() <= fresh.Pos() && fresh.End() <= rs.Body.End() && rs.Body.Pos() <= call.Pos() && call.End() <= rs.Body.End() {
					inLoop = true
				}
				return true
			})
		}
		switch {
		case other != "":
			r.Bad(rule, construct, p.Pos(call.Pos()), "the list "+id.Name+" a conflict is tested against is also assigned at "+other+" in a way that is neither a fresh allocation, the unconditional fill from the live map, nor the accumulation of the tested name: names merged earlier in the same run can be missed and a clash accepted silently")
		case inLoop && fills == 1:
			r.OK(rule, construct, p.Pos(call.Pos()), "fresh-per-item", "allocated empty and rebuilt unconditionally for every item from the keys of "+filledFrom)
		case fresh != nil && fills == 0 && accum > 0:
			r.OK(rule, construct, p.Pos(call.Pos()), "accumulated-on-accept", "the list starts empty and accumulates exactly the names that were tested and accepted")
		default:
			r.Bad(rule, construct, p.Pos(call.Pos()), "the list "+id.Name+" a conflict is tested against is neither rebuilt from the live map for every item nor an accumulation of the accepted names: names merged earlier in the same run are missed and a clash is accepted silently")
		}
		return true
	})
	// membership tested directly in the live map of the type being extended (always up to date)
	ast.Inspect(fnBody, func(nd ast.Node) bool {
		as, ok := nd.(*ast.AssignStmt)
		if !ok || len(as.Lhs) != 2 || len(as.Rhs) != 1 {
			return true
		}
		ix, ok := ast.Unparen(as.Rhs[0]).(*ast.IndexExpr)
		if !ok {
			return true
		}
		tv, ok := info.Types[ix.X]
		if !ok {
			return true
		}
		mt, isMap := tv.Type.Underlying().(*types.Map)
		if !isMap || !strings.HasSuffix(mt.Elem().String(), "openfga/v1.Userset") {
			return true
		}
		okID, isID := as.Lhs[1].(*ast.Ident)
		if !isID || okID.Name == "_" {
			return true
		}
		okObj := info.Defs[okID]
		used := false
		ast.Inspect(fnBody, func(m ast.Node) bool {
			if is, isIf := m.(*ast.IfStmt); isIf {
				ast.Inspect(is.Cond, func(q ast.Node) bool {
					if id, isIdent := q.(*ast.Ident); isIdent && info.Uses[id] == okObj {
						used = true
					}
					return true
				})
			}
			return true
		})
		if used {
			n++
			r.OK(rule, "membership-list:live map "+types.ExprString(ix.X), p.Pos(as.Pos()), "live-map-lookup", "the clash is tested in the relation map of the type itself, which the merger updates as it goes")
		}
		return true
	})
	// membership tested in a set that is looked up in another table (a cache kept beside the live object)
	judgedSets := map[types.Object]bool{}
	ast.Inspect(fnBody, func(nd ast.Node) bool {
		ix, ok := nd.(*ast.IndexExpr)
		if !ok {
			return true
		}
		id, isID := ast.Unparen(ix.X).(*ast.Ident)
		tv, okT := info.Types[ix.X]
		if !isID || !okT {
			return true
		}
		mt, isMap := tv.Type.Underlying().(*types.Map)
		if !isMap {
			return true
		}
		switch et := mt.Elem().Underlying().(type) {
		case *types.Struct:
			if et.NumFields() != 0 {
				return true
			}
		case *types.Basic:
			if et.Kind() != types.Bool {
				return true
			}
		default:
			return true
		}
		obj := info.Uses[id]
		if obj == nil {
			return true
		}
		// where does the set come from?
		var src ast.Expr
		ast.Inspect(fnBody, func(m ast.Node) bool {
			if as, isAs := m.(*ast.AssignStmt); isAs {
				for i, l := range as.Lhs {
					if lid, isL := l.(*ast.Ident); isL && info.Defs[lid] == obj && len(as.Rhs) == len(as.Lhs) {
						src = as.Rhs[i]
					}
				}
			}
			return true
		})
		if src == nil {
			return true
		}
		if _, fromTable := ast.Unparen(src).(*ast.IndexExpr); !fromTable {
			// a local set made empty here: the names tested and accepted are added to it, and nothing else
			fresh := false
			switch x := ast.Unparen(src).(type) {
			case *ast.CompositeLit:
				fresh = len(x.Elts) == 0
			case *ast.CallExpr:
				if mid, isMk := x.Fun.(*ast.Ident); isMk && mid.Name == "make" {
					fresh = true
				}
			}
			if !fresh || judgedSets[obj] {
				return true
			}
			// this occurrence must be a read (a test), not the left-hand side of the update
			isRead := true
			ast.Inspect(fnBody, func(m ast.Node) bool {
				if as, isAs := m.(*ast.AssignStmt); isAs {
					for _, l := range as.Lhs {
						if l == ast.Expr(ix) {
							isRead = false
						}
					}
				}
				return true
			})
			if !isRead {
				return true
			}
			judgedSets[obj] = true
			tested := types.ExprString(ix.Index)
			other := ""
			adds := 0
			ast.Inspect(fnBody, func(m ast.Node) bool {
				switch y := m.(type) {
				case *ast.AssignStmt:
					for _, l := range y.Lhs {
						lix, isIx := ast.Unparen(l).(*ast.IndexExpr)
						if !isIx {
							if lid, isL := l.(*ast.Ident); isL && info.Uses[lid] == obj {
								other = p.Pos(y.Pos())
							}
							continue
						}
						if lid, isL := ast.Unparen(lix.X).(*ast.Ident); isL && info.Uses[lid] == obj {
							if types.ExprString(lix.Index) == tested {
								adds++
							} else {
								other = p.Pos(y.Pos())
							}
						}
					}
				case *ast.CallExpr:
					if fid, isF := y.Fun.(*ast.Ident); isF && (fid.Name == "delete" || fid.Name == "clear") && len(y.Args) > 0 {
						if aid, isA := ast.Unparen(y.Args[0]).(*ast.Ident); isA && info.Uses[aid] == obj {
							other = p.Pos(y.Pos())
						}
					}
				}
				return true
			})
			n++
			switch {
			case other != "":
				r.Bad(rule, "membership-set:"+id.Name, p.Pos(ix.Pos()), "the set "+id.Name+" a conflict is tested against is also changed at "+other+" in a way that is not the addition of the tested name: names merged earlier in the same run can be missed and a clash accepted silently")
			case adds == 0:
				r.Bad(rule, "membership-set:"+id.Name, p.Pos(ix.Pos()), "nothing is ever added to the set "+id.Name+" a conflict is tested against: a clash is accepted silently")
			default:
				r.OK(rule, "membership-set:"+id.Name, p.Pos(ix.Pos()), "accumulated-on-accept", "the set starts empty and accumulates exactly the names that were tested and accepted")
			}
			return true
		}
		n++
		r.Unknown(rule, "membership-set:"+id.Name, p.Pos(ix.Pos()), "a conflict is tested against the set "+id.Name+", which is taken from the table "+types.ExprString(src)+" kept beside the live object: it is not established that every way of adding to the live object (wholesale assignment of an extension's relations included) also updates that set — a clash can then be accepted silently")
		return false
	})
	return n
}

// ModuleLookupShape (C07 clause 7): GetModuleForObjectTypeRelation returns an error exactly when the
// relation is absent, the relation's own module when it is non-empty, else the type's module.
func ModuleLookupShape(p *load.Prog, r *oblig.Report, rule string) {
	fn := p.Func("utils", "GetModuleForObjectTypeRelation")
	construct := "module-lookup:GetModuleForObjectTypeRelation"
	if fn == nil {
		r.Unknown(rule, construct, "-", "function not found")
		return
	}
	var shapes []string
	for _, b := range fn.Blocks {
		ret, ok := b.Instrs[len(b.Instrs)-1].(*ssa.Return)
		if !ok {
			continue
		}
		val := stripUnique(AccessPath(ret.Results[0]))
		errNil := "err"
		if c, isC := ret.Results[1].(*ssa.Const); isC && c.IsNil() {
			errNil = "nil"
		}
		shapes = append(shapes, val+","+errNil)
	}
	sort.Strings(shapes)
	got := strings.Join(shapes, " | ")
	want := `"",err | ‹v›#0.Module,nil | typeDef.Metadata.Module,nil`
	okShape := len(shapes) == 3 && strings.Contains(got, `"",err`) && strings.Contains(got, "typeDef.Metadata.Module,nil") && strings.Contains(got, ".Module,nil")
	// the same precedence written as cmp.Or(<relation module>, <type module>): first non-empty
	if !okShape && len(shapes) == 2 && strings.Contains(got, `"",err`) {
		for _, b := range fn.Blocks {
			ret, ok := b.Instrs[len(b.Instrs)-1].(*ssa.Return)
			if !ok {
				continue
			}
			call, ok := ret.Results[0].(*ssa.Call)
			if !ok {
				continue
			}
			cal := call.Common().StaticCallee()
			if cal != nil && cal.Origin() != nil {
				cal = cal.Origin()
			}
			if cal == nil || cal.Pkg == nil || cal.Pkg.Pkg.Path() != "cmp" || cal.Name() != "Or" {
				continue
			}
			ops := variadicOperands(call.Common().Args[0])
			if len(ops) == 2 {
				first, second := stripUnique(AccessPath(ops[0])), stripUnique(AccessPath(ops[1]))
				if strings.Contains(first, ".Relations[") && strings.HasSuffix(first, ".Module") && strings.HasSuffix(second, ".Metadata.Module") && !strings.Contains(second, ".Relations[") {
					okShape = true
					got += " (cmp.Or: relation module first, then the type's module)"
				}
			}
		}
	}
	if okShape {
		r.OK(rule, construct, p.Pos(fn.Pos()), "return-shapes", got)
	} else {
		r.Bad(rule, construct, p.Pos(fn.Pos()), "returns are {"+got+"}, expected {"+want+"}: relation absent ⇒ error; relation module if set; otherwise the type's module")
	}
}

// ForwardedErrors (R9.4b, C07 "naming the offending file"): parser errors that the merger forwards
// wholesale (multierror.Append(acc, xs...) with xs not built on the spot) carry no file of their own;
// before they are appended, a complete loop over the same list must store the name of the file being
// parsed into the File field of every element (reached through errors.As or a type assertion on the
// element).
func ForwardedErrors(p *load.Prog, r *oblig.Report, rule string) {
	merger := p.Func("transformer", "TransformModuleFilesToModel")
	if merger == nil {
		r.Unknown(rule, "anchor:TransformModuleFilesToModel", "-", "function not found")
		return
	}
	// the merger and the helpers of its package it reaches (the forwarding may live in a helper)
	fns := []*ssa.Function{merger}
	seen := map[*ssa.Function]bool{merger: true}
	for i := 0; i < len(fns) && i < 40; i++ {
		for _, b := range fns[i].Blocks {
			for _, in := range b.Instrs {
				if ci, ok := in.(ssa.CallInstruction); ok {
					if cal := ci.Common().StaticCallee(); cal != nil && cal.Pkg == merger.Pkg && !seen[cal] && len(cal.Blocks) > 0 && !helperExported(cal) {
						seen[cal] = true
						fns = append(fns, cal)
					}
				}
			}
		}
	}
	n := 0
	for _, fn := range fns {
		for _, b := range fn.Blocks {
			for _, in := range b.Instrs {
				call, ok := in.(*ssa.Call)
				if !ok {
					continue
				}
				c := call.Common().StaticCallee()
				if c == nil || c.Name() != "Append" || c.Pkg == nil || !strings.Contains(c.Pkg.Pkg.Path(), "go-multierror") || len(call.Common().Args) != 2 {
					continue
				}
				list := call.Common().Args[1]
				if sl, ok := list.(*ssa.Slice); ok {
					if _, fresh := sl.X.(*ssa.Alloc); fresh {
						continue // a literal argument list: judged by the merge-error rule
					}
				}
				if listOfOwnLiterals(list, 0, map[ssa.Value]bool{}) {
					// a list a helper filled with the merger's own error literals: each literal is judged by the merge-error rule
					continue
				}
				// the list is a parameter of a collector helper (add(errs ...error)): judged at every call of the helper
				if prm, isPrm := list.(*ssa.Parameter); isPrm && fn != merger {
					idx := -1
					for i, q := range fn.Params {
						if q == prm {
							idx = i
						}
					}
					for _, g := range fns {
						for _, gb := range g.Blocks {
							for _, gin := range gb.Instrs {
								site, ok := gin.(ssa.CallInstruction)
								if !ok || site.Common().StaticCallee() != fn || idx < 0 || idx >= len(site.Common().Args) {
									continue
								}
								arg := site.Common().Args[idx]
								if sl, ok := arg.(*ssa.Slice); ok {
									if _, fresh := sl.X.(*ssa.Alloc); fresh {
										continue
									}
								}
								if listOfOwnLiterals(arg, 0, map[ssa.Value]bool{}) {
									continue
								}
								n++
								if why := fileStoredForAll(merger, g, gin, arg); why != "" {
									r.Bad(rule, "merge-error:forwarded errors", p.Pos(gin.Pos()), "errors are forwarded without naming the file they were found in ("+why+"): with two unparseable files the caller cannot tell which one is at fault")
								} else {
									r.OK(rule, "merge-error:forwarded errors", p.Pos(gin.Pos()), "file-stored-per-element", "a complete loop over the same list stores the parsed file's name into every element before the list is handed to the collector")
								}
							}
						}
					}
					continue
				}
				n++
				construct := "merge-error:forwarded errors"
				pos := p.Pos(call.Pos())
				why := ""
				// the list may be what a helper returns: judge the helper's returns
				if hc, isCall := list.(*ssa.Call); isCall {
					if h := hc.Common().StaticCallee(); h != nil && seen[h] {
						rets := 0
						for _, hb := range h.Blocks {
							ret, ok := hb.Instrs[len(hb.Instrs)-1].(*ssa.Return)
							if !ok || len(ret.Results) == 0 {
								continue
							}
							if cst, isC := ret.Results[0].(*ssa.Const); isC && cst.IsNil() {
								continue
							}
							rets++
							if w := fileStoredForAll(merger, h, ret, ret.Results[0]); w != "" {
								why = w
							}
						}
						if rets == 0 {
							why = "the helper never returns a list"
						}
						if why != "" {
							r.Bad(rule, construct, pos, "errors are forwarded without naming the file they were found in ("+why+"): with two unparseable files the caller cannot tell which one is at fault")
						} else {
							r.OK(rule, construct, pos, "file-stored-per-element", "the helper stores the parsed file's name into every element before it returns the list")
						}
						continue
					}
				}
				if why = fileStoredForAll(merger, fn, call, list); why != "" {
					r.Bad(rule, construct, pos, "errors are forwarded without naming the file they were found in ("+why+"): with two unparseable files the caller cannot tell which one is at fault")
				} else {
					r.OK(rule, construct, pos, "file-stored-per-element", "a complete loop over the same list stores the parsed file's name into every element before the list is appended")
				}
			}
		}
	}
	if n == 0 {
		r.Unknown(rule, "merge-error:forwarded", p.Pos(merger.Pos()), "no forwarded error list found in the merger (anchor gone)")
	}
}

// listOfOwnLiterals: every element of the error list v is a fresh ModuleTransformationSingleError literal
// (appended in this function or in the repository helper that returns the list).
func listOfOwnLiterals(v ssa.Value, depth int, seen map[ssa.Value]bool) bool {
	if depth > 8 {
		return false
	}
	if seen[v] {
		return true
	}
	seen[v] = true
	switch x := v.(type) {
	case *ssa.Const:
		return x.IsNil()
	case *ssa.MakeSlice:
		c, ok := x.Len.(*ssa.Const)
		return ok && c.Int64() == 0
	case *ssa.Phi:
		for _, e := range x.Edges {
			if !listOfOwnLiterals(e, depth+1, seen) {
				return false
			}
		}
		return true
	case *ssa.Slice:
		al, ok := x.X.(*ssa.Alloc)
		if !ok || al.Referrers() == nil {
			return false
		}
		for _, ref := range *al.Referrers() {
			ia, ok := ref.(*ssa.IndexAddr)
			if !ok {
				continue
			}
			if ia.Referrers() == nil {
				continue
			}
			for _, r2 := range *ia.Referrers() {
				st, ok := r2.(*ssa.Store)
				if !ok {
					continue
				}
				val := st.Val
				if mi, ok := val.(*ssa.MakeInterface); ok {
					val = mi.X
				}
				lit, ok := val.(*ssa.Alloc)
				if !ok || structNameOf(lit.Type()) != "ModuleTransformationSingleError" {
					return false
				}
			}
		}
		return true
	case *ssa.Call:
		if c, ok := appendCall(x); ok {
			return listOfOwnLiterals(c.Common().Args[0], depth+1, seen) && listOfOwnLiterals(c.Common().Args[1], depth+1, seen)
		}
		h := x.Common().StaticCallee()
		if h == nil || !load.InRepo(h) || len(h.Blocks) == 0 || h.Signature.Results().Len() != 1 {
			return false
		}
		n := 0
		for _, b := range h.Blocks {
			if ret, ok := b.Instrs[len(b.Instrs)-1].(*ssa.Return); ok {
				n++
				if !listOfOwnLiterals(ret.Results[0], depth+1, seen) {
					return false
				}
			}
		}
		return n > 0
	}
	return false
}

// fileValueOK: v is <module>.Name of the module whose Contents the merger parses, directly or as a helper
// parameter that receives it at every call site.
func fileValueOK(merger *ssa.Function, v ssa.Value, depth int) (bool, string) {
	if depth > 3 {
		return false, "too deep"
	}
	if prm, ok := v.(*ssa.Parameter); ok && prm.Parent() != merger {
		f := prm.Parent()
		idx := -1
		for i, q := range f.Params {
			if q == prm {
				idx = i
			}
		}
		sites := 0
		for _, g := range append([]*ssa.Function{merger}, callersInPkg(merger, f)...) {
			for _, b := range g.Blocks {
				for _, in := range b.Instrs {
					if ci, ok := in.(ssa.CallInstruction); ok && ci.Common().StaticCallee() == f && idx < len(ci.Common().Args) {
						sites++
						if ok, why := fileValueOK(merger, ci.Common().Args[idx], depth+1); !ok {
							return false, why
						}
					}
				}
			}
		}
		if sites == 0 {
			return false, "the helper that sets File is never called from the merger"
		}
		return true, ""
	}
	vp := AccessPath(v)
	if !strings.HasSuffix(vp, ".Name") || !parsedContentsOf(merger, strings.TrimSuffix(vp, ".Name")) {
		return false, "File is set to " + stripUnique(vp) + ", which is not the name of the file being parsed"
	}
	return true, ""
}

// callersInPkg: unexported functions of the merger's package that call f (one level is enough here).
func callersInPkg(merger, f *ssa.Function) []*ssa.Function {
	var out []*ssa.Function
	if merger.Pkg == nil {
		return nil
	}
	for _, m := range merger.Pkg.Members {
		g, ok := m.(*ssa.Function)
		if !ok || g == merger {
			continue
		}
		for _, b := range g.Blocks {
			for _, in := range b.Instrs {
				if ci, ok := in.(ssa.CallInstruction); ok && ci.Common().StaticCallee() == f {
					out = append(out, g)
				}
			}
		}
	}
	return out
}

func fileStoredForAll(merger, fn *ssa.Function, app ssa.Instruction, list ssa.Value) string {
	want := AccessPath(list)
	why := "no store to a File field of the forwarded errors"
	for _, b := range fn.Blocks {
		for _, in := range b.Instrs {
			st, ok := in.(*ssa.Store)
			if !ok {
				continue
			}
			fa, ok := st.Addr.(*ssa.FieldAddr)
			if !ok {
				continue
			}
			stt, ok := fa.X.Type().Underlying().(*types.Pointer).Elem().Underlying().(*types.Struct)
			if !ok || stt.Field(fa.Field).Name() != "File" {
				continue
			}
			if _, isLit := fa.X.(*ssa.Alloc); isLit {
				continue
			}
			if !types.Implements(fa.X.Type(), errorIface()) {
				continue
			}
			// the value: <module>.Name of the module whose Contents were parsed
			if ok, w := fileValueOK(merger, st.Val, 0); !ok {
				why = w
				continue
			}
			// the element: fa.X derives from an element of the forwarded list
			elem, guard := elementOf(fa.X)
			if elem == nil {
				why = "the object whose File is set is not an element of the forwarded list"
				continue
			}
			ia, ok := elem.(*ssa.UnOp)
			var idx *ssa.IndexAddr
			if ok {
				idx, _ = ia.X.(*ssa.IndexAddr)
			}
			if idx == nil || AccessPath(idx.X) != want {
				why = "the loop that sets File does not run over the forwarded list"
				continue
			}
			// the store is reached whenever the element has the type (only the type test guards it)
			for _, ce := range DominatingConds(b) {
				if ce.Cond == guard || withinLoopHeader(ce, idx) {
					continue
				}
				if dominatesBlock(ce.If.Block(), app.Block()) {
					continue // a condition the append is under as well
				}
				why = "the store to File is additionally guarded by " + stripUnique(AccessPath(ce.Cond))
				guard = nil
			}
			if guard == nil {
				continue
			}
			// complete loop whose header dominates the append
			hdr := loopHeaderOf(idx)
			if hdr == nil || !dominatesBlock(hdr, app.Block()) || !loopComplete(hdr) {
				why = "the loop that sets File does not always run to completion before the list is appended"
				continue
			}
			return ""
		}
	}
	return why
}

var errIface *types.Interface

func errorIface() *types.Interface {
	if errIface == nil {
		errIface = types.Universe.Lookup("error").Type().Underlying().(*types.Interface)
	}
	return errIface
}

// elementOf: base is (a) the load of an errors.As target filled from an interface value e under the
// true branch, or (b) the result of a checked type assertion on e. Returns e and the guarding value.
func elementOf(base ssa.Value) (ssa.Value, ssa.Value) {
	switch x := base.(type) {
	case *ssa.UnOp: // *target
		al, ok := x.X.(*ssa.Alloc)
		if !ok || al.Referrers() == nil {
			return nil, nil
		}
		for _, ref := range *al.Referrers() {
			mi, ok := ref.(*ssa.MakeInterface)
			if !ok || mi.Referrers() == nil {
				continue
			}
			for _, r2 := range *mi.Referrers() {
				if call, ok := r2.(*ssa.Call); ok {
					if c := call.Common().StaticCallee(); c != nil && c.Name() == "As" && c.Pkg != nil && c.Pkg.Pkg.Path() == "errors" {
						return call.Common().Args[0], call
					}
				}
			}
		}
	case *ssa.Extract:
		if ta, ok := x.Tuple.(*ssa.TypeAssert); ok && x.Index == 0 && ta.Referrers() != nil {
			for _, ref := range *ta.Referrers() {
				if e, ok := ref.(*ssa.Extract); ok && e.Index == 1 {
					return ta.X, e
				}
			}
		}
	}
	return nil, nil
}

func loopHeaderOf(idx *ssa.IndexAddr) *ssa.BasicBlock {
	// range over a slice: the index is a phi (or phi+1) in the loop header
	v := idx.Index
	if bo, ok := v.(*ssa.BinOp); ok {
		v = bo.X
	}
	if ph, ok := v.(*ssa.Phi); ok {
		return ph.Block()
	}
	return nil
}

func withinLoopHeader(ce CondEdge, idx *ssa.IndexAddr) bool {
	hdr := loopHeaderOf(idx)
	return hdr != nil && ce.If.Block() == hdr
}

func dominatesBlock(a, b *ssa.BasicBlock) bool {
	for x := b; x != nil; x = x.Idom() {
		if x == a {
			return true
		}
	}
	return false
}

// loopComplete: the loop with this header is left only from the header.
func loopComplete(hdr *ssa.BasicBlock) bool {
	if len(hdr.Succs) != 2 {
		return false
	}
	body := hdr.Succs[0]
	for _, b := range hdr.Parent().Blocks {
		if !dominatesBlock(body, b) {
			continue
		}
		for _, s := range b.Succs {
			if s != hdr && !dominatesBlock(body, s) {
				return false
			}
		}
		if len(b.Succs) == 0 {
			return false // return or panic inside the loop
		}
	}
	return true
}

// ExtensionByDefinition (C07.9): a module file can declare a type and extend it; both definitions carry the same name.
// Whether a definition is the extension is decided by comparing it with the definition the listener recorded in its
// extension table, not by the presence of its name in that table (a comma-ok lookup whose ok is branched on).
func ExtensionByDefinition(p *load.Prog, r *oblig.Report, rule string, funcs []*ssa.Function) {
	n := 0
	for _, fn := range funcs {
		if fn.Pkg == nil || fn.Pkg.Pkg.Name() != "transformer" {
			continue
		}
		for _, b := range fn.Blocks {
			for _, in := range b.Instrs {
				lk, ok := in.(*ssa.Lookup)
				if !ok {
					continue
				}
				mt, ok := lk.X.Type().Underlying().(*types.Map)
				if !ok || !strings.HasSuffix(mt.Elem().String(), "v1.TypeDefinition") {
					continue
				}
				if bk, ok := mt.Key().Underlying().(*types.Basic); !ok || bk.Kind() != types.String {
					continue
				}
				// only the table of extensions handed over by the parser (a parameter or a call result), not the
				// merger's own indexes
				if _, own := lk.X.(*ssa.MakeMap); own {
					continue
				}
				if _, isField := lk.X.(*ssa.UnOp); isField {
					continue
				}
				if fn.Signature.Recv() != nil {
					continue // the listener's own duplicate test ("already extended in file") is about names
				}
				n++
				construct := "extension-by-definition:" + load.FuncName(fn)
				byName, byDef := false, false
				var walk func(v ssa.Value, depth int)
				walk = func(v ssa.Value, depth int) {
					if depth > 3 || v.Referrers() == nil {
						return
					}
					for _, ref := range *v.Referrers() {
						switch x := ref.(type) {
						case *ssa.Extract:
							if x.Index == 1 {
								if x.Referrers() != nil && len(*x.Referrers()) > 0 {
									byName = true
								}
							} else {
								walk(x, depth+1)
							}
						case *ssa.BinOp:
							if x.Op == token.EQL || x.Op == token.NEQ {
								other := x.X
								if other == v {
									other = x.Y
								}
								if c, isC := other.(*ssa.Const); isC && c.IsNil() {
									byName = true
								} else {
									byDef = true
								}
							}
						case *ssa.Phi:
							walk(x, depth+1)
						}
					}
				}
				walk(lk, 0)
				switch {
				case byDef && !byName:
					r.OK(rule, construct, p.Pos(lk.Pos()), "value-compare", "the recorded extension is compared with the definition at hand")
				case byName:
					r.Bad(rule, construct, p.Pos(lk.Pos()), "a definition is taken for an extension because its NAME is in the file's extension table: a file that declares a type and extends it has two definitions of that name, the declaration is merged as an extension (a duplicate declaration in another file goes unreported) and the extension of a type declared in the same file finds no target")
				default:
					r.Unknown(rule, construct, p.Pos(lk.Pos()), "the extension table is looked up in a way this rule does not read")
				}
			}
		}
	}
	if n == 0 {
		r.Unknown(rule, "extension-by-definition", "-", "no lookup in the extension table found in the merger: anchors no longer resolve")
	}
}

// ModuleByModuleName (C07.10): "file is not a module" is decided by the module name the parser attached to a type
// (empty for the types of a model file), not by the mere presence of metadata, which the types of a model file have
// as soon as they have relations.
func ModuleByModuleName(p *load.Prog, r *oblig.Report, rule string, funcs []*ssa.Function) {
	n := 0
	for _, fn := range funcs {
		if fn.Pkg == nil || fn.Pkg.Pkg.Name() != "transformer" {
			continue
		}
		for _, b := range fn.Blocks {
			for _, in := range b.Instrs {
				st, ok := in.(*ssa.Store)
				if !ok {
					continue
				}
				c, ok := st.Val.(*ssa.Const)
				if !ok || c.Value == nil || c.Value.Kind() != constant.String || constant.StringVal(c.Value) != "file is not a module" {
					continue
				}
				// the test that leads here: on a type definition or on a condition?
				onType, byModule, onCond := false, false, false
				var derives func(v ssa.Value, depth int)
				derives = func(v ssa.Value, depth int) {
					if depth > 5 {
						return
					}
					switch x := v.(type) {
					case *ssa.Call:
						if cal := x.Common().StaticCallee(); cal != nil {
							if cal.Name() == "GetModule" {
								byModule = true
							}
							if cal.Signature.Recv() != nil {
								rt := cal.Signature.Recv().Type().String()
								if strings.HasSuffix(rt, "v1.TypeDefinition") || strings.HasSuffix(rt, "v1.Metadata") {
									onType = true
								}
								if strings.HasSuffix(rt, "v1.Condition") || strings.HasSuffix(rt, "v1.ConditionMetadata") {
									onCond = true
								}
							}
							for _, a := range x.Common().Args {
								derives(a, depth+1)
							}
						}
					case *ssa.BinOp:
						derives(x.X, depth+1)
						derives(x.Y, depth+1)
					case *ssa.UnOp:
						derives(x.X, depth+1)
					case *ssa.FieldAddr:
						if structFieldNameM(x.X.Type(), x.Field) == "Module" {
							byModule = true
						}
						derives(x.X, depth+1)
					case *ssa.Phi:
						for _, e := range x.Edges {
							derives(e, depth+1)
						}
					}
				}
				for _, ce := range DominatingConds(b) {
					derives(ce.Cond, 0)
				}
				if !onType || onCond && !onType {
					continue
				}
				n++
				construct := "module-by-name:" + load.FuncName(fn)
				if byModule {
					r.OK(rule, construct, p.Pos(st.Pos()), "dominating-test", "decided by the module name attached to the type")
				} else {
					r.Bad(rule, construct, p.Pos(st.Pos()), "'file is not a module' is decided by whether the type has metadata at all: the types of a model file ('model / schema 1.1') have metadata as soon as they have relations, so such a file is merged as if it were a module")
				}
			}
		}
	}
	if n == 0 {
		r.Unknown(rule, "module-by-name", "-", "no 'file is not a module' decision on a type definition found: anchors no longer resolve")
	}
}

func structFieldNameM(t types.Type, i int) string {
	if pt, ok := t.Underlying().(*types.Pointer); ok {
		t = pt.Elem()
	}
	if st, ok := t.Underlying().(*types.Struct); ok && i < st.NumFields() {
		return st.Field(i).Name()
	}
	return ""
}
