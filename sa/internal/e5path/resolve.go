package e5path

import (
	"golang.org/x/tools/go/ssa"

	"verif/sa/internal/load"
)

// Resolver follows values backwards across unexported-helper boundaries: a parameter of a function
// with exactly one static call site (among Funcs) is the argument passed there; the result of a
// repository helper with exactly one return is the value returned. Rules use it so that extracting a
// few statements into a helper does not hide a value's origin.
type Resolver struct {
	Root  *ssa.Function
	Funcs []*ssa.Function
	sites map[*ssa.Function][]ssa.CallInstruction
}

// NewResolver collects root and the functions of its package it reaches through static calls.
func NewResolver(root *ssa.Function) *Resolver {
	r := &Resolver{Root: root}
	seen := map[*ssa.Function]bool{root: true}
	work := []*ssa.Function{root}
	for len(work) > 0 {
		f := work[0]
		work = work[1:]
		r.Funcs = append(r.Funcs, f)
		for _, b := range f.Blocks {
			for _, in := range b.Instrs {
				if ci, ok := in.(ssa.CallInstruction); ok {
					if callee := ci.Common().StaticCallee(); callee != nil && callee.Pkg == root.Pkg && !seen[callee] && len(callee.Blocks) > 0 {
						seen[callee] = true
						work = append(work, callee)
					}
				}
			}
		}
	}
	return r
}

func (r *Resolver) callSites(f *ssa.Function) []ssa.CallInstruction {
	if r.sites == nil {
		r.sites = map[*ssa.Function][]ssa.CallInstruction{}
		for _, g := range r.Funcs {
			for _, b := range g.Blocks {
				for _, in := range b.Instrs {
					if ci, ok := in.(ssa.CallInstruction); ok {
						if callee := ci.Common().StaticCallee(); callee != nil {
							r.sites[callee] = append(r.sites[callee], ci)
						}
					}
				}
			}
		}
	}
	return r.sites[f]
}

// Res resolves v as far as possible.
func (r *Resolver) Res(v ssa.Value) ssa.Value {
	for i := 0; i < 8; i++ {
		switch x := v.(type) {
		case *ssa.Parameter:
			f := x.Parent()
			sites := r.callSites(f)
			if len(sites) != 1 {
				return v
			}
			idx := -1
			for k, q := range f.Params {
				if q == x {
					idx = k
				}
			}
			if idx < 0 || idx >= len(sites[0].Common().Args) {
				return v
			}
			v = sites[0].Common().Args[idx]
			continue
		case *ssa.Call:
			callee := x.Common().StaticCallee()
			if callee == nil || !load.InRepo(callee) || len(callee.Blocks) == 0 || (r.Root != nil && callee.Pkg != r.Root.Pkg) {
				return v
			}
			if n := callee.Name(); len(n) > 3 && (n[:3] == "New" || n[:3] == "new") {
				return v // a constructor: the object it makes is identified by the call
			}
			var rets []*ssa.Return
			for _, b := range callee.Blocks {
				if rt, ok := b.Instrs[len(b.Instrs)-1].(*ssa.Return); ok {
					rets = append(rets, rt)
				}
			}
			if len(rets) != 1 || len(rets[0].Results) != 1 {
				return v
			}
			v = rets[0].Results[0]
			continue
		case *ssa.ChangeType:
			v = x.X
			continue
		case *ssa.MakeInterface:
			v = x.X
			continue
		case *ssa.ChangeInterface:
			v = x.X
			continue
		}
		return v
	}
	return v
}
