package e5path

import (
	"go/ast"
	"go/token"
	"go/types"
	"golang.org/x/tools/go/ssa"
	"strings"

	"verif/sa/internal/load"
)

// Resolver follows values backwards across unexported-helper boundaries: a parameter of a function
// with exactly one static call site (among Funcs) is the argument passed there; the result of a
// repository helper with exactly one return is the value returned. Rules use it so that extracting a
// few statements into a helper does not hide a value's origin.
type Resolver struct {
	Root  *ssa.Function
	Funcs []*ssa.Function
	sites map[*ssa.Function][]ssa.CallInstruction
}

// NewResolver collects root and the functions of its package it reaches through static calls.
func NewResolver(root *ssa.Function) *Resolver {
	r := &Resolver{Root: root}
	seen := map[*ssa.Function]bool{root: true}
	work := []*ssa.Function{root}
	for len(work) > 0 {
		f := work[0]
		work = work[1:]
		r.Funcs = append(r.Funcs, f)
		for _, b := range f.Blocks {
			for _, in := range b.Instrs {
				if ci, ok := in.(ssa.CallInstruction); ok {
					if callee := ci.Common().StaticCallee(); callee != nil && callee.Pkg == root.Pkg && !seen[callee] && len(callee.Blocks) > 0 {
						seen[callee] = true
						work = append(work, callee)
					}
				}
			}
		}
	}
	return r
}

func (r *Resolver) callSites(f *ssa.Function) []ssa.CallInstruction {
	if r.sites == nil {
		r.sites = map[*ssa.Function][]ssa.CallInstruction{}
		for _, g := range r.Funcs {
			for _, b := range g.Blocks {
				for _, in := range b.Instrs {
					if ci, ok := in.(ssa.CallInstruction); ok {
						if callee := ci.Common().StaticCallee(); callee != nil {
							r.sites[callee] = append(r.sites[callee], ci)
						}
					}
				}
			}
		}
	}
	return r.sites[f]
}

// Res resolves v as far as possible.
func (r *Resolver) Res(v ssa.Value) ssa.Value {
	for i := 0; i < 8; i++ {
		switch x := v.(type) {
		case *ssa.Parameter:
			f := x.Parent()
			sites := r.callSites(f)
			if len(sites) != 1 {
				return v
			}
			idx := -1
			for k, q := range f.Params {
				if q == x {
					idx = k
				}
			}
			if idx < 0 || idx >= len(sites[0].Common().Args) {
				return v
			}
			v = sites[0].Common().Args[idx]
			continue
		case *ssa.Call:
			callee := x.Common().StaticCallee()
			if callee == nil || !load.InRepo(callee) || len(callee.Blocks) == 0 || (r.Root != nil && callee.Pkg != r.Root.Pkg) {
				return v
			}
			if n := callee.Name(); len(n) > 3 && (n[:3] == "New" || n[:3] == "new") {
				return v // a constructor: the object it makes is identified by the call
			}
			var rets []*ssa.Return
			for _, b := range callee.Blocks {
				if rt, ok := b.Instrs[len(b.Instrs)-1].(*ssa.Return); ok {
					rets = append(rets, rt)
				}
			}
			if len(rets) != 1 || len(rets[0].Results) != 1 {
				return v
			}
			v = rets[0].Results[0]
			continue
		case *ssa.ChangeType:
			v = x.X
			continue
		case *ssa.MakeInterface:
			v = x.X
			continue
		case *ssa.ChangeInterface:
			v = x.X
			continue
		}
		return v
	}
	return v
}

// LitInst is one instance of a struct literal in a function: the literal written in the function
// itself, or the literal a constructor helper of the same package builds (one instance per call of the
// helper, its parameters bound to that call's arguments).
type LitInst struct {
	Alloc  *ssa.Alloc
	Fields map[string]ssa.Value // raw stored values (inside the helper for helper-made literals)
	Env    map[*ssa.Parameter]ssa.Value
	Free   map[*ssa.FreeVar]ssa.Value // for a literal made by a local closure: the captured cells
	Site   *ssa.BasicBlock            // block of the analysed function where the instance comes into being
	Pos    ssa.Instruction            // instruction to report (the literal or the helper call)
	Inner  *ssa.BasicBlock            // for a literal made inside a helper: its block there (conditions inside the helper)
}

// Arg maps a helper parameter to the argument of this instance's call; other values are returned unchanged.
func (l *LitInst) Arg(v ssa.Value) ssa.Value {
	if prm, ok := v.(*ssa.Parameter); ok {
		if a, ok := l.Env[prm]; ok {
			return a
		}
	}
	if a := freeVarValue(v, l.Free); a != nil {
		return a
	}
	return v
}

// freeVarValue: v is a load of a captured variable whose cell in the enclosing function is assigned exactly
// once: the value assigned there (nil otherwise).
func freeVarValue(v ssa.Value, free map[*ssa.FreeVar]ssa.Value) ssa.Value {
	ld, ok := v.(*ssa.UnOp)
	if !ok || ld.Op != token.MUL || free == nil {
		return nil
	}
	fv, ok := ld.X.(*ssa.FreeVar)
	if !ok {
		return nil
	}
	cell, ok := free[fv].(*ssa.Alloc)
	if !ok || cell.Referrers() == nil {
		return nil
	}
	var val ssa.Value
	for _, ref := range *cell.Referrers() {
		if st, ok := ref.(*ssa.Store); ok && st.Addr == ssa.Value(cell) {
			if val != nil {
				return nil
			}
			val = st.Val
		}
	}
	if val != nil && anonymousPath(AccessPath(val)) {
		// an anonymous value (a range element, a call result): the variable's own name says more
		return nil
	}
	return val
}

// closureFree binds the free variables of the closure called by call (nil when the callee is not a local closure).
func closureFree(call *ssa.CallCommon) map[*ssa.FreeVar]ssa.Value {
	mc, ok := call.Value.(*ssa.MakeClosure)
	if !ok {
		return nil
	}
	f, ok := mc.Fn.(*ssa.Function)
	if !ok {
		return nil
	}
	out := map[*ssa.FreeVar]ssa.Value{}
	for i, fv := range f.FreeVars {
		if i < len(mc.Bindings) {
			out[fv] = mc.Bindings[i]
		}
	}
	return out
}

// helperExported: an exported function of the package is an entry point of its own, not a helper; a local
// closure is always a helper of the function that defines it.
func helperExported(h *ssa.Function) bool {
	return h.Parent() == nil && ast.IsExported(h.Name())
}

func litFields(al *ssa.Alloc) map[string]ssa.Value {
	out := map[string]ssa.Value{}
	st, ok := al.Type().Underlying().(*types.Pointer).Elem().Underlying().(*types.Struct)
	if !ok || al.Referrers() == nil {
		return out
	}
	for _, ref := range *al.Referrers() {
		fa, ok := ref.(*ssa.FieldAddr)
		if !ok || fa.Referrers() == nil {
			continue
		}
		for _, r2 := range *fa.Referrers() {
			if s, ok := r2.(*ssa.Store); ok {
				out[st.Field(fa.Field).Name()] = s.Val
			}
		}
	}
	return out
}

// LiteralInstances lists the instances of literals of the named struct type in fn.
func LiteralInstances(fn *ssa.Function, structName string) []LitInst {
	var out []LitInst
	for _, b := range fn.Blocks {
		for _, in := range b.Instrs {
			switch x := in.(type) {
			case *ssa.Alloc:
				if structNameOf(x.Type()) == structName {
					out = append(out, LitInst{Alloc: x, Fields: litFields(x), Site: b, Pos: x})
				}
			case *ssa.Call:
				h := x.Common().StaticCallee()
				if h == nil || h.Pkg != fn.Pkg || h == fn || len(h.Blocks) == 0 {
					continue
				}
				var ret *ssa.Return
				nret := 0
				for _, hb := range h.Blocks {
					if rt, ok := hb.Instrs[len(hb.Instrs)-1].(*ssa.Return); ok {
						ret, nret = rt, nret+1
					}
				}
				if helperExported(h) {
					continue
				}
				free := closureFree(x.Common())
				var returned *ssa.Alloc
				if nret == 1 && len(ret.Results) == 1 {
					returned, _ = ret.Results[0].(*ssa.Alloc)
				}
				if returned == nil || structNameOf(returned.Type()) != structName {
					// a helper that makes such literals on its way (e.g. a loop body moved out): one instance per literal and call
					env := map[*ssa.Parameter]ssa.Value{}
					for i, prm := range h.Params {
						if i < len(x.Common().Args) {
							env[prm] = x.Common().Args[i]
						}
					}
					for _, hb := range h.Blocks {
						for _, hin := range hb.Instrs {
							if al, ok := hin.(*ssa.Alloc); ok && structNameOf(al.Type()) == structName {
								out = append(out, LitInst{Alloc: al, Fields: litFields(al), Env: env, Free: free, Site: b, Pos: x, Inner: hb})
							}
						}
					}
					continue
				}
				al, ok := ret.Results[0].(*ssa.Alloc)
				if !ok || structNameOf(al.Type()) != structName {
					continue
				}
				env := map[*ssa.Parameter]ssa.Value{}
				for i, prm := range h.Params {
					if i < len(x.Common().Args) {
						env[prm] = x.Common().Args[i]
					}
				}
				out = append(out, LitInst{Alloc: al, Fields: litFields(al), Env: env, Free: free, Site: b, Pos: x})
			}
		}
	}
	return out
}

// StoreInst is a store executed by fn: its own, or one inside a helper of its package that it calls
// (the helper's parameters bound to the arguments of that call).
type StoreInst struct {
	St   *ssa.Store
	Env  map[*ssa.Parameter]ssa.Value
	Site *ssa.BasicBlock
}

// Arg maps a helper parameter to its argument.
func (s *StoreInst) Arg(v ssa.Value) ssa.Value {
	if prm, ok := v.(*ssa.Parameter); ok {
		if a, ok := s.Env[prm]; ok {
			return a
		}
	}
	return v
}

// Path renders v with helper parameters replaced by the access paths of their arguments.
func (s *StoreInst) Path(v ssa.Value) string {
	p := AccessPath(v)
	for prm, arg := range s.Env {
		n := prm.Name()
		if p == n {
			return AccessPath(arg)
		}
		if strings.HasPrefix(p, n+".") || strings.HasPrefix(p, n+"[") {
			return AccessPath(arg) + p[len(n):]
		}
	}
	return p
}

// StoresWithHelpers lists the stores of fn and of the helpers (same package, one level) it calls.
func StoresWithHelpers(fn *ssa.Function) []StoreInst {
	var out []StoreInst
	for _, b := range fn.Blocks {
		for _, in := range b.Instrs {
			switch x := in.(type) {
			case *ssa.Store:
				out = append(out, StoreInst{St: x, Site: b})
			case ssa.CallInstruction:
				h := x.Common().StaticCallee()
				if h == nil || h.Pkg != fn.Pkg || h == fn || len(h.Blocks) == 0 || helperExported(h) {
					continue
				}
				env := map[*ssa.Parameter]ssa.Value{}
				for i, prm := range h.Params {
					if i < len(x.Common().Args) {
						env[prm] = x.Common().Args[i]
					}
				}
				for _, hb := range h.Blocks {
					for _, hin := range hb.Instrs {
						if st, ok := hin.(*ssa.Store); ok {
							out = append(out, StoreInst{St: st, Env: env, Site: b})
						}
					}
				}
			}
		}
	}
	return out
}

// CallInst is a call executed by fn: its own, or one inside a helper of its package that it calls (one or two
// levels), with the helper's parameters bound to the arguments of the call in fn.
type CallInst struct {
	Call ssa.CallInstruction
	Env  map[*ssa.Parameter]ssa.Value
	Site *ssa.BasicBlock // block of fn where the call (or the call of the helper) stands
	Via  ssa.CallInstruction
}

// Arg maps a helper parameter to its argument.
func (c *CallInst) Arg(v ssa.Value) ssa.Value {
	for i := 0; i < 3; i++ {
		prm, ok := v.(*ssa.Parameter)
		if !ok {
			return v
		}
		a, ok := c.Env[prm]
		if !ok {
			return v
		}
		v = a
	}
	return v
}

// Path renders v with helper parameters replaced by the access paths of their arguments.
func (c *CallInst) Path(v ssa.Value) string {
	p := AccessPath(v)
	for prm, arg := range c.Env {
		n := prm.Name()
		if p == n {
			return AccessPath(arg)
		}
		if strings.HasPrefix(p, n+".") || strings.HasPrefix(p, n+"[") {
			return AccessPath(arg) + p[len(n):]
		}
	}
	return p
}

// CallsWithHelpers lists the calls of fn and of the unexported helpers of its package it calls.
func CallsWithHelpers(fn *ssa.Function, depth int) []CallInst {
	var out []CallInst
	var walk func(f *ssa.Function, env map[*ssa.Parameter]ssa.Value, site *ssa.BasicBlock, via ssa.CallInstruction, d int)
	walk = func(f *ssa.Function, env map[*ssa.Parameter]ssa.Value, site *ssa.BasicBlock, via ssa.CallInstruction, d int) {
		for _, b := range f.Blocks {
			for _, in := range b.Instrs {
				ci, ok := in.(ssa.CallInstruction)
				if !ok {
					continue
				}
				s, v := site, via
				if f == fn {
					s, v = b, ci
				}
				out = append(out, CallInst{Call: ci, Env: env, Site: s, Via: v})
				h := ci.Common().StaticCallee()
				if h == nil || h.Pkg != fn.Pkg || h == fn || h == f || len(h.Blocks) == 0 || helperExported(h) || d >= depth {
					continue
				}
				sub := map[*ssa.Parameter]ssa.Value{}
				for i, prm := range h.Params {
					if i < len(ci.Common().Args) {
						a := ci.Common().Args[i]
						if pa, isP := a.(*ssa.Parameter); isP && env != nil {
							if b2, ok := env[pa]; ok {
								a = b2
							}
						}
						sub[prm] = a
					}
				}
				walk(h, sub, s, v, d+1)
			}
		}
	}
	walk(fn, nil, nil, nil, 0)
	return out
}

// anonymousPath: the rendered path names nothing but SSA temporaries.
func anonymousPath(p string) bool {
	depth := 0
	for _, r := range p {
		switch {
		case r == '‹':
			depth++
		case r == '›':
			depth--
		case depth == 0 && (r == '_' || r >= 'a' && r <= 'z' || r >= 'A' && r <= 'Z'):
			return false
		}
	}
	return true
}
