package e5path

import (
	"go/constant"
	"go/token"
	"go/types"
	"strings"

	"golang.org/x/tools/go/ssa"

	"verif/sa/internal/load"
)

// Piece is a part of a string-valued expression: literal text or a hole filled by a value.
type Piece struct {
	Lit string
	Val ssa.Value // nil for a literal
	Pos token.Pos
}

// Templates renders a string-valued SSA value as alternatives of literal/hole sequences. It
// understands constants, string concatenation, fmt.Sprintf with a constant format (plain %s/%v/%d/%q
// verbs become holes), phis (alternatives), and calls of repository helpers that return a string
// (their returned values, with parameters bound to the arguments). Anything else is one hole.
func Templates(v ssa.Value, opaque ...*ssa.Function) [][]Piece {
	old := opaqueCallees
	opaqueCallees = map[*ssa.Function]bool{}
	for _, f := range opaque {
		opaqueCallees[f] = true
	}
	defer func() { opaqueCallees = old }()
	return templates(v, nil, 0)
}

// callees whose result stays a hole (the rule wants to see where their text goes)
var opaqueCallees = map[*ssa.Function]bool{}

type bindings map[*ssa.Parameter]ssa.Value

func isStringType(t types.Type) bool {
	b, ok := t.Underlying().(*types.Basic)
	return ok && b.Info()&types.IsString != 0
}

func templates(v ssa.Value, env bindings, depth int) [][]Piece {
	hole := [][]Piece{{{Val: v, Pos: v.Pos()}}}
	if depth > 6 {
		return hole
	}
	switch x := v.(type) {
	case *ssa.Const:
		if x.Value != nil && x.Value.Kind() == constant.String {
			return [][]Piece{{{Lit: constant.StringVal(x.Value)}}}
		}
	case *ssa.Parameter:
		if a, ok := env[x]; ok {
			return templates(a, nil, depth+1)
		}
	case *ssa.BinOp:
		if x.Op == token.ADD && isStringType(x.Type()) {
			return crossT(templates(x.X, env, depth+1), templates(x.Y, env, depth+1))
		}
	case *ssa.Phi:
		var out [][]Piece
		for _, e := range x.Edges {
			out = append(out, templates(e, env, depth+1)...)
			if len(out) > 32 {
				return hole
			}
		}
		return out
	case *ssa.Extract:
		if c, ok := x.Tuple.(*ssa.Call); ok && x.Index == 0 {
			if t := callTemplates(c, env, depth); t != nil {
				return t
			}
		}
	case *ssa.Call:
		if t := callTemplates(x, env, depth); t != nil {
			return t
		}
	}
	return hole
}

func crossT(a, b [][]Piece) [][]Piece {
	var out [][]Piece
	for _, x := range a {
		for _, y := range b {
			out = append(out, append(append([]Piece{}, x...), y...))
		}
	}
	return out
}

func callTemplates(c *ssa.Call, env bindings, depth int) [][]Piece {
	callee := c.Common().StaticCallee()
	if callee == nil {
		return nil
	}
	if callee.Pkg != nil && callee.Pkg.Pkg.Path() == "fmt" && callee.Name() == "Sprintf" && len(c.Common().Args) >= 1 {
		fc, ok := c.Common().Args[0].(*ssa.Const)
		if !ok || fc.Value == nil || fc.Value.Kind() != constant.String {
			return nil
		}
		format := constant.StringVal(fc.Value)
		var args []ssa.Value
		if len(c.Common().Args) >= 2 {
			args = variadicOperands(c.Common().Args[1])
		}
		out := [][]Piece{{}}
		vp := verbPositions(format)
		last := 0
		for i, p := range vp {
			lit := strings.ReplaceAll(format[last:p[0]], "%%", "%")
			last = p[1]
			var arg ssa.Value
			if i < len(args) {
				arg = args[i]
			}
			if arg == nil {
				return nil
			}
			for {
				if mi, ok := arg.(*ssa.MakeInterface); ok {
					arg = mi.X
					continue
				}
				if ci, ok := arg.(*ssa.ChangeInterface); ok {
					arg = ci.X
					continue
				}
				break
			}
			var sub [][]Piece
			verb := format[p[0]:p[1]]
			if (verb == "%s" || verb == "%v") && isStringType(arg.Type()) {
				sub = templates(arg, env, depth+1)
			} else {
				sub = [][]Piece{{{Val: arg, Pos: c.Pos()}}}
			}
			out = crossT(crossT(out, [][]Piece{{{Lit: lit}}}), sub)
		}
		out = crossT(out, [][]Piece{{{Lit: strings.ReplaceAll(format[last:], "%%", "%")}}})
		return out
	}
	// repository helper returning a string first
	if opaqueCallees[callee] {
		return nil
	}
	if !load.InRepo(callee) || len(callee.Blocks) == 0 || callee.Signature.Results().Len() == 0 || !isStringType(callee.Signature.Results().At(0).Type()) {
		return nil
	}
	if depth > 3 {
		return nil
	}
	sub := bindings{}
	for i, p := range callee.Params {
		if i < len(c.Common().Args) {
			a := c.Common().Args[i]
			if pa, ok := a.(*ssa.Parameter); ok {
				if b, ok := env[pa]; ok {
					a = b
				}
			}
			sub[p] = a
		}
	}
	var out [][]Piece
	for _, b := range callee.Blocks {
		if ret, ok := b.Instrs[len(b.Instrs)-1].(*ssa.Return); ok && len(ret.Results) > 0 {
			out = append(out, templates(ret.Results[0], sub, depth+2)...)
		}
	}
	if len(out) == 0 || len(out) > 32 {
		return nil
	}
	return out
}

// Normalise merges adjacent literals and drops empty ones.
func Normalise(t []Piece) []Piece {
	var out []Piece
	for _, p := range t {
		if p.Val == nil {
			if p.Lit == "" {
				continue
			}
			if n := len(out); n > 0 && out[n-1].Val == nil {
				out[n-1].Lit += p.Lit
				continue
			}
		}
		out = append(out, p)
	}
	return out
}

// TemplateString renders a template with ‹hole› markers.
func TemplateString(t []Piece) string {
	var sb strings.Builder
	for _, p := range Normalise(t) {
		if p.Val == nil {
			sb.WriteString(p.Lit)
		} else {
			sb.WriteString("‹" + stripUnique(AccessPath(p.Val)) + "›")
		}
	}
	return sb.String()
}

// ReturnTemplates: templates of the first (string) result at every return of fn.
func ReturnTemplates(fn *ssa.Function, opaque ...*ssa.Function) [][]Piece {
	var out [][]Piece
	for _, b := range fn.Blocks {
		if ret, ok := b.Instrs[len(b.Instrs)-1].(*ssa.Return); ok && len(ret.Results) > 0 && isStringType(ret.Results[0].Type()) {
			for _, t := range Templates(ret.Results[0], opaque...) {
				out = append(out, Normalise(t))
			}
		}
	}
	return out
}
