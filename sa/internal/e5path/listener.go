package e5path

import (
	"fmt"
	"go/ast"
	"go/token"
	"go/types"
	"sort"
	"strings"

	"golang.org/x/tools/go/ssa"

	"verif/sa/internal/load"
	"verif/sa/internal/oblig"
	"verif/sa/internal/pathx"
)

// AccessPath renders an SSA value as a path of field selections, getter calls and accessor calls
// rooted at a parameter, so that two separately computed but equal expressions compare equal
// (SSA has no common-subexpression elimination). Unknown shapes get a unique name.
func AccessPath(v ssa.Value) string { return accessPath(v, 0) }

// LeafOverride, when set, is asked first for every value met while a path is rendered: a rule that judges a
// helper's code in the context of one call binds the helper's parameters (and captured variables) to what the
// caller passes. Use WithBindings rather than setting it directly.
var LeafOverride func(v ssa.Value) (string, bool)

// WithBindings renders v with the given values replaced by the paths of the values they are bound to.
func WithBindings(v ssa.Value, env map[ssa.Value]ssa.Value) string {
	if len(env) == 0 {
		return AccessPath(v)
	}
	old := LeafOverride
	var hook func(x ssa.Value) (string, bool)
	hook = func(x ssa.Value) (string, bool) {
		if b, ok := env[x]; ok && b != x {
			LeafOverride = old
			s := AccessPath(b)
			LeafOverride = hook
			return s, true
		}
		// the value of a captured variable: *freevar; or of a parameter spilled into a cell (because a closure captures it)
		if u, ok := x.(*ssa.UnOp); ok && u.Op == token.MUL {
			if fv, isFV := u.X.(*ssa.FreeVar); isFV {
				if b, ok := env[fv]; ok {
					LeafOverride = old
					s := AccessPath(b)
					LeafOverride = hook
					return s, true
				}
			}
			if cell, isCell := u.X.(*ssa.Alloc); isCell && cell.Referrers() != nil {
				var stored ssa.Value
				n := 0
				for _, ref := range *cell.Referrers() {
					if st, ok := ref.(*ssa.Store); ok && st.Addr == ssa.Value(cell) {
						stored = st.Val
						n++
					}
				}
				if n == 1 {
					if b, ok := env[stored]; ok && b != stored {
						LeafOverride = old
						s := AccessPath(b)
						LeafOverride = hook
						return s, true
					}
				}
			}
		}
		return "", false
	}
	LeafOverride = hook
	defer func() { LeafOverride = old }()
	return AccessPath(v)
}

func accessPath(v ssa.Value, depth int) string {
	if depth > 12 {
		return uniqueName(v)
	}
	if LeafOverride != nil {
		if s, ok := LeafOverride(v); ok {
			return s
		}
	}
	switch x := v.(type) {
	case *ssa.Parameter:
		return x.Name()
	case *ssa.FreeVar:
		// a captured variable: the same variable as the enclosing function's (whose cell carries the same name)
		return x.Name()
	case *ssa.Alloc:
		if x.Comment != "" && x.Comment != "complit" && x.Comment != "varargs" {
			return x.Comment
		}
	case *ssa.FieldAddr:
		return accessPath(x.X, depth+1) + "." + fieldNameOf(x.X.Type(), x.Field)
	case *ssa.Field:
		return accessPath(x.X, depth+1) + "." + fieldNameOf(x.X.Type(), x.Field)
	case *ssa.UnOp:
		if x.Op == token.MUL {
			return accessPath(x.X, depth+1)
		}
		if x.Op == token.NOT {
			return "!" + accessPath(x.X, depth+1)
		}
	case *ssa.Call:
		cc := x.Common()
		if cc.IsInvoke() {
			if len(cc.Args) == 0 {
				return accessPath(cc.Value, depth+1) + "." + cc.Method.Name() + "()"
			}
			return uniqueName(v)
		}
		callee := cc.StaticCallee()
		if callee != nil && callee.Signature.Recv() == nil {
			if o := callee.Origin(); o != nil && o.Pkg != nil && o.Pkg.Pkg.Path() == "slices" && (o.Name() == "Contains" || o.Name() == "Index" || o.Name() == "IndexFunc") {
				parts := make([]string, len(cc.Args))
				for i, a := range cc.Args {
					parts[i] = accessPath(a, depth+1)
				}
				return "slices." + o.Name() + "(" + strings.Join(parts, ", ") + ")"
			}
		}
		if callee != nil && callee.Signature.Recv() == nil && callee.Pkg != nil && callee.Pkg.Pkg.Path() == "strings" {
			// pure library function: same arguments, same result
			parts := make([]string, len(cc.Args))
			for i, a := range cc.Args {
				parts[i] = accessPath(a, depth+1)
			}
			return "strings." + callee.Name() + "(" + strings.Join(parts, ", ") + ")"
		}
		if callee != nil && callee.Signature.Recv() != nil && len(cc.Args) == 1 {
			name := callee.Name()
			pk := load.FuncPkg(callee)
			if pk != nil && strings.HasPrefix(pk.Path(), "github.com/openfga/api/proto") && strings.HasPrefix(name, "Get") {
				// generated getter: returns the field (or its zero value for a nil receiver)
				return accessPath(cc.Args[0], depth+1) + "." + strings.TrimPrefix(name, "Get")
			}
			return accessPath(cc.Args[0], depth+1) + "." + name + "()"
		}
	case *ssa.MakeInterface:
		return accessPath(x.X, depth+1)
	case *ssa.ChangeInterface:
		return accessPath(x.X, depth+1)
	case *ssa.ChangeType:
		return accessPath(x.X, depth+1)
	case *ssa.Const:
		if x.IsNil() {
			return "nil"
		}
		return x.Value.ExactString()
	case *ssa.TypeAssert:
		// the payload wrapper of a protobuf oneof reached through a type assertion / type switch on the oneof
		// interface: x.GetUserset().(*Userset_Union).Union is what the getter chain x.GetUnion() names
		if pt, ok := x.AssertedType.(*types.Pointer); ok {
			if nt, ok := pt.Elem().(*types.Named); ok && strings.Contains(nt.Obj().Name(), "_") && nt.Obj().Pkg() != nil && strings.HasPrefix(nt.Obj().Pkg().Path(), "github.com/openfga/api/proto") {
				inner := accessPath(x.X, depth+1)
				if i := strings.LastIndex(inner, "."); i > 0 && !strings.HasSuffix(inner, ")") {
					return inner[:i]
				}
			}
		}
	case *ssa.Extract:
		if ta, ok := x.Tuple.(*ssa.TypeAssert); ok && ta.CommaOk && x.Index == 0 {
			if s := accessPath(ta, depth+1); !strings.HasPrefix(s, "‹") {
				return s
			}
		}
		return accessPath(x.Tuple, depth+1) + fmt.Sprintf("#%d", x.Index)
	case *ssa.Lookup:
		return accessPath(x.X, depth+1) + "[" + accessPath(x.Index, depth+1) + "]"
	case *ssa.IndexAddr:
		return accessPath(x.X, depth+1) + "[" + accessPath(x.Index, depth+1) + "]"
	case *ssa.Index:
		return accessPath(x.X, depth+1) + "[" + accessPath(x.Index, depth+1) + "]"
	case *ssa.BinOp:
		return "(" + accessPath(x.X, depth+1) + x.Op.String() + accessPath(x.Y, depth+1) + ")"
	}
	if c, ok := v.(*ssa.Call); ok {
		if b, isB := c.Common().Value.(*ssa.Builtin); isB && (b.Name() == "len" || b.Name() == "cap") && len(c.Common().Args) == 1 {
			return b.Name() + "(" + accessPath(c.Common().Args[0], depth+1) + ")"
		}
	}
	return uniqueName(v)
}

func uniqueName(v ssa.Value) string {
	return fmt.Sprintf("‹%s@%p›", v.Name(), v)
}

func fieldNameOf(t types.Type, idx int) string {
	if p, ok := t.Underlying().(*types.Pointer); ok {
		t = p.Elem()
	}
	if st, ok := t.Underlying().(*types.Struct); ok && idx < st.NumFields() {
		return st.Field(idx).Name()
	}
	return fmt.Sprintf("f%d", idx)
}

func isNotifyCall(in ssa.Instruction) bool {
	call, ok := in.(ssa.CallInstruction)
	if !ok {
		return false
	}
	cc := call.Common()
	if cc.IsInvoke() {
		return cc.Method.Name() == "NotifyErrorListeners"
	}
	if c := cc.StaticCallee(); c != nil {
		if c.Name() == "NotifyErrorListeners" {
			return true
		}
		return helperNotifies(c, 0)
	}
	return false
}

// helperNotifies: a helper of the repository that notifies the error listeners on every path (the notifying
// block dominates every return).
func helperNotifies(h *ssa.Function, depth int) bool {
	if depth > 1 || !load.InRepo(h) || len(h.Blocks) == 0 {
		return false
	}
	for _, b := range h.Blocks {
		notifies := false
		for _, in := range b.Instrs {
			call, ok := in.(ssa.CallInstruction)
			if !ok {
				continue
			}
			cc := call.Common()
			if cc.IsInvoke() && cc.Method.Name() == "NotifyErrorListeners" {
				notifies = true
			} else if c := cc.StaticCallee(); c != nil && (c.Name() == "NotifyErrorListeners" || helperNotifies(c, depth+1)) {
				notifies = true
			}
		}
		if !notifies {
			continue
		}
		all := true
		for _, rb := range h.Blocks {
			if _, isRet := rb.Instrs[len(rb.Instrs)-1].(*ssa.Return); isRet && !dominatesBlock(b, rb) {
				all = false
			}
		}
		if all {
			return true
		}
	}
	return false
}

func blockNotifies(b *ssa.BasicBlock) bool {
	for _, in := range b.Instrs {
		if isNotifyCall(in) {
			return true
		}
	}
	return false
}

// nilTestBranches: for value v, the If instructions testing v against nil (or a comma-ok flag),
// with the successor taken when v is non-nil / present.
func presentBranches(v ssa.Value) []struct {
	If      *ssa.If
	Present *ssa.BasicBlock
} {
	var out []struct {
		If      *ssa.If
		Present *ssa.BasicBlock
	}
	add := func(cond ssa.Value, presentOnTrue bool) {
		refs := cond.Referrers()
		if refs == nil {
			return
		}
		for _, r := range *refs {
			if ifi, ok := r.(*ssa.If); ok {
				b := ifi.Block()
				succ := b.Succs[0]
				if !presentOnTrue {
					succ = b.Succs[1]
				}
				out = append(out, struct {
					If      *ssa.If
					Present *ssa.BasicBlock
				}{ifi, succ})
			}
		}
	}
	vals := []ssa.Value{v}
	// comma-ok lookups: Extract #0 is the value, #1 the flag
	if refs := v.Referrers(); refs != nil {
		for _, r := range *refs {
			if ex, ok := r.(*ssa.Extract); ok {
				if ex.Index == 1 {
					add(ex, true)
				} else {
					vals = append(vals, ex)
				}
			}
		}
	}
	for _, val := range vals {
		refs := val.Referrers()
		if refs == nil {
			continue
		}
		for _, r := range *refs {
			if bo, ok := r.(*ssa.BinOp); ok && (bo.Op == token.NEQ || bo.Op == token.EQL) {
				other := bo.Y
				if other == val {
					other = bo.X
				}
				if c, ok := other.(*ssa.Const); ok && c.IsNil() {
					add(bo, bo.Op == token.NEQ)
				}
			}
		}
	}
	return out
}

// TableSpec names one declaration table of the listener.
type TableSpec struct {
	Func    string // listener method containing the insert
	MapPath string // access path of the table, e.g. "l.currentTypeDef.Relations"
	What    string
}

// CheckBeforeInsert (R5.4): every insert into a declaration table is dominated by a lookup of the
// same key in the same table whose "present" branch notifies the error listeners.
func CheckBeforeInsert(p *load.Prog, r *oblig.Report, rule string, specs []TableSpec) {
	for _, sp := range specs {
		fn := p.Method("transformer", "OpenFgaDslListener", sp.Func)
		construct := "check-before-insert:" + sp.Func + ":" + sp.MapPath
		if fn == nil {
			r.Unknown(rule, construct, "-", "listener method "+sp.Func+" not found")
			continue
		}
		nStores := 0
		// the callback itself, or a helper method of the listener into which the check and the insert were moved together
		cands := []*ssa.Function{fn}
		for _, b := range fn.Blocks {
			for _, in := range b.Instrs {
				if ci, ok := in.(ssa.CallInstruction); ok {
					if h := ci.Common().StaticCallee(); h != nil && h.Pkg == fn.Pkg && len(h.Blocks) > 0 && h.Signature.Recv() != nil && !ast.IsExported(h.Name()) &&
						len(ci.Common().Args) > 0 && ci.Common().Args[0] == ssa.Value(fn.Params[0]) {
						cands = append(cands, h)
					}
				}
			}
		}
		for _, fn := range cands {
			for _, b := range fn.Blocks {
				for _, in := range b.Instrs {
					mu, ok := in.(*ssa.MapUpdate)
					if !ok || AccessPath(mu.Map) != sp.MapPath {
						continue
					}
					nStores++
					key := AccessPath(mu.Key)
					okStore, why := false, "no lookup of the same key in "+sp.MapPath+" precedes the insert"
					for _, b2 := range fn.Blocks {
						for _, in2 := range b2.Instrs {
							lk, ok := in2.(*ssa.Lookup)
							if !ok || AccessPath(lk.X) != sp.MapPath {
								continue
							}
							if AccessPath(lk.Index) != key && lk.Index != mu.Key {
								continue
							}
							for _, pb := range presentBranches(lk) {
								switch {
								case !pb.If.Block().Dominates(b):
									why = "the duplicate test does not dominate the insert: on some path the " + sp.What + " is stored without having been checked"
								case !blockNotifies(pb.Present):
									why = "the branch taken for an existing " + sp.What + " does not notify the error listeners"
								default:
									okStore = true
								}
							}
						}
					}
					if !okStore && insertCheckedOnPaths(cands[0], sp.MapPath) {
						// the lookup lives in a helper (a generic "is declared" predicate): decided on the enumerated paths
						r.OK(rule, construct, p.Pos(mu.Pos()), "paths: lookup+notify", "key "+key)
						continue
					}
					if okStore {
						r.OK(rule, construct, p.Pos(mu.Pos()), "dominating-lookup+notify", "key "+key)
					} else {
						r.Bad(rule, construct, p.Pos(mu.Pos()), "duplicate "+sp.What+" can be accepted silently: "+why)
					}
				}
			}
		}
		if nStores == 0 {
			r.Unknown(rule, construct, p.Pos(fn.Pos()), "no insert into "+sp.MapPath+" found in "+sp.Func+": anchor no longer resolves")
		}
	}
}

// ConditionDeclared (R5.4, the condition table): the condition object that ExitCondition files under
// its own name is created in EnterCondition only after a lookup of that same name in the condition
// table whose "present" branch notifies.
func ConditionDeclared(p *load.Prog, r *oblig.Report, rule string) {
	fn := p.Method("transformer", "OpenFgaDslListener", "EnterCondition")
	construct := "check-before-insert:EnterCondition:l.authorizationModel.Conditions"
	if fn == nil {
		r.Unknown(rule, construct, "-", "EnterCondition not found")
		return
	}
	// the Store into l.currentCondition of a fresh Condition whose Name field is initialised with K
	n := 0
	for _, b := range fn.Blocks {
		for _, in := range b.Instrs {
			st, ok := in.(*ssa.Store)
			if !ok || AccessPath(st.Addr) != "l.currentCondition" {
				continue
			}
			al, ok := st.Val.(*ssa.Alloc)
			if !ok {
				continue
			}
			n++
			var nameVal ssa.Value
			if refs := al.Referrers(); refs != nil {
				for _, ref := range *refs {
					if fa, ok := ref.(*ssa.FieldAddr); ok && fieldNameOf(al.Type(), fa.Field) == "Name" && fa.Referrers() != nil {
						for _, r2 := range *fa.Referrers() {
							if s2, ok := r2.(*ssa.Store); ok {
								nameVal = s2.Val
							}
						}
					}
				}
			}
			if nameVal == nil {
				r.Bad(rule, construct, p.Pos(st.Pos()), "the new condition's Name is not initialised: ExitCondition files it under the empty name")
				continue
			}
			okStore, why := false, "no lookup of the condition name in the condition table precedes the creation of the condition"
			for _, b2 := range fn.Blocks {
				for _, in2 := range b2.Instrs {
					lk, ok := in2.(*ssa.Lookup)
					if !ok || AccessPath(lk.X) != "l.authorizationModel.Conditions" {
						continue
					}
					if lk.Index != nameVal && AccessPath(lk.Index) != AccessPath(nameVal) {
						continue
					}
					for _, pb := range presentBranches(lk) {
						switch {
						case !pb.If.Block().Dominates(b):
							why = "the duplicate test does not dominate the creation of the condition"
						case !blockNotifies(pb.Present):
							why = "the branch taken for an existing condition does not notify the error listeners"
						default:
							okStore = true
						}
					}
				}
			}
			if !okStore && conditionCheckedOnPaths(fn, st) {
				r.OK(rule, construct, p.Pos(st.Pos()), "paths: lookup+notify", "key "+AccessPath(nameVal))
				continue
			}
			if okStore {
				r.OK(rule, construct, p.Pos(st.Pos()), "dominating-lookup+notify", "key "+AccessPath(nameVal))
			} else {
				r.Bad(rule, construct, p.Pos(st.Pos()), "duplicate condition can be accepted silently: "+why)
			}
		}
	}
	if n == 0 {
		r.Unknown(rule, construct, p.Pos(fn.Pos()), "no creation of l.currentCondition found in EnterCondition")
	}
	// and ExitCondition files it under its own name
	ex := p.Method("transformer", "OpenFgaDslListener", "ExitCondition")
	c2 := "condition-filed-under-own-name:ExitCondition"
	if ex == nil {
		r.Unknown(rule, c2, "-", "ExitCondition not found")
		return
	}
	found := false
	for _, b := range ex.Blocks {
		for _, in := range b.Instrs {
			if mu, ok := in.(*ssa.MapUpdate); ok && AccessPath(mu.Map) == "l.authorizationModel.Conditions" {
				found = true
				if AccessPath(mu.Key) == "l.currentCondition.Name" && AccessPath(mu.Value) == "l.currentCondition" {
					r.OK(rule, c2, p.Pos(mu.Pos()), "access-paths", "Conditions[currentCondition.Name] = currentCondition")
				} else {
					r.Bad(rule, c2, p.Pos(mu.Pos()), "the condition is filed as Conditions["+AccessPath(mu.Key)+"] = "+AccessPath(mu.Value)+", not under the name that was checked")
				}
			}
		}
	}
	if !found {
		r.Unknown(rule, c2, p.Pos(ex.Pos()), "no insert into the condition table in ExitCondition")
	}
}

// renderCond renders a dominating condition edge as "<path> <op> <path> : branch".
func renderCond(ce CondEdge) string {
	switch c := ce.Cond.(type) {
	case *ssa.BinOp:
		return fmt.Sprintf("%s %s %s is %v", AccessPath(c.X), c.Op, AccessPath(c.Y), ce.Branch)
	case *ssa.UnOp:
		if c.Op == token.NOT {
			return fmt.Sprintf("%s is %v", AccessPath(c.X), !ce.Branch)
		}
	}
	return fmt.Sprintf("%s is %v", AccessPath(ce.Cond), ce.Branch)
}

// NotifyGuards: in the named listener method, the set of conditions under which the error listeners
// are notified must be exactly the expected one (a further condition would let some offending
// documents through).
func NotifyGuards(p *load.Prog, r *oblig.Report, rule, method string, occurrence int, expected []string, what string) {
	fn := p.Method("transformer", "OpenFgaDslListener", method)
	construct := fmt.Sprintf("notify-guard:%s:%s", method, what)
	if fn == nil {
		r.Unknown(rule, construct, "-", "listener method not found")
		return
	}
	k := 0
	for _, b := range fn.Blocks {
		if !blockNotifies(b) {
			continue
		}
		k++
		if k != occurrence {
			continue
		}
		var got []string
		for _, ce := range DominatingConds(b) {
			got = append(got, renderCond(ce))
		}
		sort.Strings(got)
		want := append([]string{}, expected...)
		sort.Strings(want)
		if strings.Join(got, " && ") == strings.Join(want, " && ") {
			r.OK(rule, construct, p.Pos(fn.Pos()), "dominating-conditions", strings.Join(got, " && "))
		} else {
			r.Bad(rule, construct, p.Pos(fn.Pos()), fmt.Sprintf("'%s' is reported under the conditions {%s}; the property requires exactly {%s}", what, strings.Join(got, " && "), strings.Join(want, " && ")))
		}
		return
	}
	r.Unknown(rule, construct, p.Pos(fn.Pos()), fmt.Sprintf("notification #%d not found in %s", occurrence, method))
}

// ErrorsVoidResult (R5.1): every successful return of fn is dominated by the test that the error
// listener's Errors field is nil, the listener being the second result of ParseDSL.
func ErrorsVoidResult(p *load.Prog, r *oblig.Report, rule string, fn *ssa.Function) {
	if fn == nil {
		r.Unknown(rule, "anchor:errors-void-result", "-", "function not found")
		return
	}
	construct := "errors-void-result:" + load.FuncName(fn)
	n := 0
	for _, ret := range SuccessReturns(fn) {
		n++
		if successGuarded(ret.Block(), 0) {
			r.OK(rule, construct, p.Pos(ret.Pos()), "dominated-by-Errors==nil", "")
		} else {
			r.Bad(rule, construct, p.Pos(ret.Pos()), "a model is returned without the guard `errorListener.Errors == nil`: a document with collected errors can still yield a model")
		}
	}
	// a return that hands on the results of a repository function unchanged (return model, err := other(data)):
	// successful exactly when the other function is, so that function's own successful returns must be guarded
	for _, b := range fn.Blocks {
		ret, ok := b.Instrs[len(b.Instrs)-1].(*ssa.Return)
		if !ok {
			continue
		}
		if h := delegatedTo(ret); h != nil {
			n++
			if delegateGuarded(h, 0) {
				r.OK(rule, construct, p.Pos(ret.Pos()), "delegated", "results of "+load.FuncName(h)+", whose successful returns are dominated by Errors == nil")
			} else {
				r.Bad(rule, construct, p.Pos(ret.Pos()), "the results of "+load.FuncName(h)+" are handed on, and that function can return a model without the guard `errorListener.Errors == nil`")
			}
		}
	}
	if n == 0 {
		r.Unknown(rule, construct, p.Pos(fn.Pos()), "no successful return found")
	}
}

// delegatedTo: the error result of ret is the error result of a call to a repository function (nil otherwise).
func delegatedTo(ret *ssa.Return) *ssa.Function {
	fn := ret.Parent()
	ei := returnsError(fn)
	if ei < 0 || ei >= len(ret.Results) {
		return nil
	}
	v := ret.Results[ei]
	for {
		switch x := v.(type) {
		case *ssa.MakeInterface:
			v = x.X
			continue
		case *ssa.ChangeInterface:
			v = x.X
			continue
		}
		break
	}
	ex, ok := v.(*ssa.Extract)
	if !ok {
		return nil
	}
	call, ok := ex.Tuple.(*ssa.Call)
	if !ok {
		return nil
	}
	h := call.Common().StaticCallee()
	if h == nil || !load.InRepo(h) || len(h.Blocks) == 0 || returnsError(h) != ex.Index {
		return nil
	}
	return h
}

func delegateGuarded(h *ssa.Function, depth int) bool {
	if depth > 3 {
		return false
	}
	n := 0
	for _, hr := range SuccessReturns(h) {
		n++
		if !successGuarded(hr.Block(), depth+1) {
			return false
		}
	}
	for _, b := range h.Blocks {
		if ret, ok := b.Instrs[len(b.Instrs)-1].(*ssa.Return); ok {
			if h2 := delegatedTo(ret); h2 != nil {
				n++
				if !delegateGuarded(h2, depth+1) {
					return false
				}
			}
		}
	}
	return n > 0
}

// successGuarded: the block is reached only when ParseDSL's error listener collected nothing — directly
// (Errors == nil on the listener ParseDSL returned) or through the nil error of a repository helper all of
// whose own successful returns are guarded in the same way.
func successGuarded(b *ssa.BasicBlock, depth int) bool {
	if depth > 3 {
		return false
	}
	for _, ce := range DominatingConds(b) {
		bo, isB := ce.Cond.(*ssa.BinOp)
		if !isB {
			continue
		}
		x, other := bo.X, bo.Y
		if c, isC := bo.X.(*ssa.Const); isC && c.IsNil() {
			x, other = bo.Y, bo.X
		}
		c, isC := other.(*ssa.Const)
		if !isC || !c.IsNil() {
			continue
		}
		isNilBranch := (bo.Op == token.NEQ && !ce.Branch) || (bo.Op == token.EQL && ce.Branch)
		if !isNilBranch {
			continue
		}
		path := AccessPath(x)
		if strings.HasSuffix(path, "#1.Errors") && (strings.Contains(path, "ParseDSL") || fromParseDSL(bo)) {
			return true
		}
		// errorListener.Errors.ErrorOrNil() == nil: by the accumulator's contract nil exactly when nothing was collected
		if strings.HasSuffix(path, "#1.Errors.ErrorOrNil()") && (strings.Contains(path, "ParseDSL") || fromParseDSL(bo)) {
			return true
		}
		// err == nil with err the error result of a guarded helper
		if ex, ok := x.(*ssa.Extract); ok {
			if call, ok := ex.Tuple.(*ssa.Call); ok {
				if h := call.Common().StaticCallee(); h != nil && load.InRepo(h) && len(h.Blocks) > 0 && returnsError(h) == ex.Index {
					rets := SuccessReturns(h)
					okAll := len(rets) > 0
					for _, hr := range rets {
						if !successGuarded(hr.Block(), depth+1) {
							okAll = false
						}
					}
					if okAll {
						return true
					}
				}
			}
		}
	}
	return false
}

func fromParseDSL(bo *ssa.BinOp) bool {
	found := false
	var walk func(v ssa.Value, d int)
	walk = func(v ssa.Value, d int) {
		if d > 8 || found {
			return
		}
		switch x := v.(type) {
		case *ssa.Call:
			if c := x.Common().StaticCallee(); c != nil && c.Name() == "ParseDSL" {
				found = true
			}
			for _, a := range x.Common().Args {
				walk(a, d+1)
			}
		case *ssa.Extract:
			walk(x.Tuple, d+1)
		case *ssa.UnOp:
			walk(x.X, d+1)
		case *ssa.FieldAddr:
			walk(x.X, d+1)
		}
	}
	walk(bo.X, 0)
	walk(bo.Y, 0)
	return found
}

// ListenerWiring (R5.2): in ParseDSL the error listener that is returned is added to both the lexer
// and the parser (after the defaults were removed) and the model listener that is returned walks
// the tree produced by the parser's start rule.
func ListenerWiring(p *load.Prog, r *oblig.Report, rule string) {
	fn := p.Func("transformer", "ParseDSL")
	if fn == nil {
		r.Unknown(rule, "anchor:ParseDSL", "-", "ParseDSL not found")
		return
	}
	var rets []*ssa.Return
	for _, b := range fn.Blocks {
		for _, in := range b.Instrs {
			if ret, ok := in.(*ssa.Return); ok {
				rets = append(rets, ret)
			}
		}
	}
	if len(rets) != 1 || len(rets[0].Results) != 2 {
		r.Unknown(rule, "wiring:ParseDSL", p.Pos(fn.Pos()), "ParseDSL does not have exactly one return of two values")
		return
	}
	rs := NewResolver(fn)
	unwrap := rs.Res
	model, errl := unwrap(rets[0].Results[0]), unwrap(rets[0].Results[1])
	added := map[string]bool{}
	removed := map[string]bool{}
	removedAfter := map[string]bool{}
	walked := false
	// ParseDSL and the helpers of its package it reaches, in call order (a helper's body stands where it is called)
	var visit func(f *ssa.Function, depth int)
	visit = func(f *ssa.Function, depth int) {
		for _, b := range f.DomPreorder() {
			for _, in := range b.Instrs {
				call, ok := in.(ssa.CallInstruction)
				if !ok {
					continue
				}
				cc := call.Common()
				if c := cc.StaticCallee(); c != nil && c.Pkg == fn.Pkg && c.Signature.Recv() == nil && len(c.Blocks) > 0 && depth < 3 && c != fn {
					isCtor := strings.HasPrefix(c.Name(), "New") || strings.HasPrefix(c.Name(), "new") && strings.Contains(c.Name(), "Listener")
					if !isCtor || strings.Contains(c.Name(), "Parser") || strings.Contains(c.Name(), "Lexer") {
						visit(c, depth+1)
					}
				}
				name := ""
				var recv ssa.Value
				var args []ssa.Value
				if cc.IsInvoke() {
					name, recv, args = cc.Method.Name(), cc.Value, cc.Args
				} else if c := cc.StaticCallee(); c != nil && c.Signature.Recv() != nil && len(cc.Args) > 0 {
					name, recv, args = c.Name(), cc.Args[0], cc.Args[1:]
				}
				kind := ""
				// the receiver is (a part of) the object created by NewOpenFGALexer / NewOpenFGAParser
				for root := recv; root != nil; {
					root = unwrap(root)
					switch x := root.(type) {
					case *ssa.FieldAddr:
						root = x.X
						continue
					case *ssa.UnOp:
						root = x.X
						continue
					case *ssa.Call:
						if c := x.Common().StaticCallee(); c != nil {
							switch {
							case strings.Contains(c.Name(), "Lexer"):
								kind = "lexer"
							case strings.Contains(c.Name(), "Parser"):
								kind = "parser"
							}
						}
					}
					break
				}
				switch name {
				case "AddErrorListener":
					if len(args) == 1 && unwrap(args[0]) == errl && kind != "" {
						added[kind] = true
					}
				case "RemoveErrorListeners":
					if kind != "" && !added[kind] {
						removed[kind] = true
					}
					if kind != "" && added[kind] {
						removedAfter[kind] = true
					}
				case "Walk":
					if len(args) == 2 && unwrap(args[0]) == model {
						if c, ok := unwrap(args[1]).(*ssa.Call); ok {
							if cal := c.Common().StaticCallee(); cal != nil && cal.Name() == "Main" {
								walked = true
							}
						}
					}
				}
			}
		}
	}
	visit(fn, 0)
	for _, kind := range []string{"lexer", "parser"} {
		construct := "error-listener-attached:" + kind
		switch {
		case !added[kind]:
			r.Bad(rule, construct, p.Pos(fn.Pos()), "the error listener returned by ParseDSL is not added to the "+kind+": its errors never reach the caller")
		case removedAfter[kind]:
			r.Bad(rule, construct, p.Pos(fn.Pos()), "the error listeners of the "+kind+" are removed again after the collecting listener was added: its errors never reach the caller")
		default:
			// whether the default (console) listeners are removed first does not matter for what is returned
			r.OK(rule, construct, p.Pos(fn.Pos()), "call-sites", fmt.Sprintf("AddErrorListener(returned listener), not removed afterwards (default listeners removed first: %v)", removed[kind]))
		}
	}
	if walked {
		r.OK(rule, "model-listener-walks-main", p.Pos(fn.Pos()), "call-site", "Walk(returned listener, parser.Main())")
	} else {
		r.Bad(rule, "model-listener-walks-main", p.Pos(fn.Pos()), "the returned model listener is not the one that walks the tree of the start rule main")
	}
}

// SyntaxErrorAlwaysRecords (R5.2b): in the error listener's SyntaxError every path to the return
// passes through the store that appends to the Errors field, and the stored line is the line
// parameter minus one, the column the column parameter (R9.2).
func SyntaxErrorAlwaysRecords(p *load.Prog, r *oblig.Report, rule string) {
	fn := p.Method("transformer", "OpenFgaDslErrorListener", "SyntaxError")
	if fn == nil {
		r.Unknown(rule, "anchor:SyntaxError", "-", "SyntaxError not found")
		return
	}
	var store *ssa.Store
	for _, b := range fn.Blocks {
		for _, in := range b.Instrs {
			if st, ok := in.(*ssa.Store); ok && strings.HasSuffix(AccessPath(st.Addr), ".Errors") {
				store = st
			}
		}
	}
	construct := "syntax-error-recorded:SyntaxError"
	if store == nil {
		r.Bad(rule, construct, p.Pos(fn.Pos()), "SyntaxError never stores into the Errors accumulator")
		return
	}
	ok := true
	for _, b := range fn.Blocks {
		if _, isRet := b.Instrs[len(b.Instrs)-1].(*ssa.Return); isRet {
			if !store.Block().Dominates(b) {
				ok = false
				r.Bad(rule, construct, p.Pos(b.Instrs[len(b.Instrs)-1].Pos()), "a path through SyntaxError returns without recording the error: that syntax error is lost and the document can be accepted")
			}
		}
	}
	// the stored value comes from multierror.Append(c.Errors, <new error>)
	if call, isCall := store.Val.(*ssa.Call); !isCall || call.Common().StaticCallee() == nil || call.Common().StaticCallee().Name() != "Append" {
		ok = false
		r.Bad(rule, construct, p.Pos(store.Pos()), "the Errors accumulator is overwritten by something other than multierror.Append(previous, new)")
	}
	if ok {
		r.OK(rule, construct, p.Pos(store.Pos()), "store-dominates-returns", "every path records the error")
	}
}

// ElementTypeKept (C01.6): in ExitConditionParameter the element type of a container parameter is
// appended to GenericTypes under nil tests only (the container / element tokens being present); a
// condition on the VALUE of the type name (a range of enum values, a table lookup) drops the element
// type for some spellings the grammar accepts, and the printer then has no element type to print.
func ElementTypeKept(p *load.Prog, r *oblig.Report, rule string) {
	fn := p.Method("transformer", "OpenFgaDslListener", "ExitConditionParameter")
	construct := "element-type-kept:ExitConditionParameter"
	if fn == nil {
		r.Unknown(rule, construct, "-", "ExitConditionParameter not found")
		return
	}
	n := 0
	// every append that contributes to a value stored into a GenericTypes field (directly, or through a local list)
	seen := map[ssa.Value]bool{}
	var appends []*ssa.Call
	var trace func(v ssa.Value)
	trace = func(v ssa.Value) {
		if seen[v] {
			return
		}
		seen[v] = true
		switch x := v.(type) {
		case *ssa.Phi:
			for _, e := range x.Edges {
				trace(e)
			}
		case *ssa.Call:
			if bi, isB := x.Common().Value.(*ssa.Builtin); isB && bi.Name() == "append" {
				appends = append(appends, x)
				trace(x.Common().Args[0])
			}
		case *ssa.UnOp:
			// a load of the field itself (append to the field): the stores to it are traced separately
		}
	}
	// the callback and the helpers of its package it hands the work to (two levels)
	fset := []*ssa.Function{fn}
	for lvl := 0; lvl < 2; lvl++ {
		for _, f := range append([]*ssa.Function{}, fset...) {
			for _, b := range f.Blocks {
				for _, in := range b.Instrs {
					if call, ok := in.(ssa.CallInstruction); ok {
						if cal := call.Common().StaticCallee(); cal != nil && cal.Pkg == fn.Pkg && len(cal.Blocks) > 0 {
							dup := false
							for _, g := range fset {
								dup = dup || g == cal
							}
							if !dup {
								fset = append(fset, cal)
							}
						}
					}
				}
			}
		}
	}
	for _, f := range fset {
		for _, b := range f.Blocks {
			for _, in := range b.Instrs {
				st, ok := in.(*ssa.Store)
				if !ok {
					continue
				}
				fa, ok := st.Addr.(*ssa.FieldAddr)
				if !ok || fieldNameOf(fa.X.Type(), fa.Field) != "GenericTypes" {
					continue
				}
				trace(st.Val)
			}
		}
	}
	for _, call := range appends {
		{
			b := call.Block()
			st := call
			n++
			bad := ""
			for _, ce := range DominatingConds(b) {
				bo, isBin := ce.Cond.(*ssa.BinOp)
				nilTest := false
				if isBin && (bo.Op == token.EQL || bo.Op == token.NEQ) {
					if c, ok := bo.Y.(*ssa.Const); ok && c.IsNil() {
						nilTest = true
					}
					if c, ok := bo.X.(*ssa.Const); ok && c.IsNil() {
						nilTest = true
					}
				}
				if !nilTest {
					bad = stripUnique(AccessPath(ce.Cond))
				}
			}
			if bad != "" {
				r.Bad(rule, construct, p.Pos(st.Pos()), "the element type is stored only when "+bad+" holds — a condition on a value, not on the presence of the tokens: for the type names it excludes, list<T> / map<T> lose their element type and the model can no longer be printed")
			} else {
				r.OK(rule, construct, p.Pos(st.Pos()), "nil-tests-only", "the append of the element type depends only on the presence of parse-tree nodes")
			}
		}
	}
	if n == 0 {
		r.Unknown(rule, construct, p.Pos(fn.Pos()), "no append to GenericTypes found in ExitConditionParameter")
	}
}

// TablesOnlyGrow (C09, "accepted ⇒ every declaration is reflected"): while one document is walked, the tables
// that record what was declared (relations of a type, parameters of a condition, conditions, extensions of a file)
// only ever gain entries; an entry that is removed again makes the duplicate test of a later declaration pass.
// Reported: delete / clear on a map that the listener holds (reachable from its receiver), in the callbacks and
// in the helpers of their package.
func TablesOnlyGrow(p *load.Prog, r *oblig.Report, rule string, funcs []*ssa.Function) {
	maps, n := 0, 0
	for _, f := range funcs {
		if f.Pkg == nil || f.Pkg.Pkg.Name() != "transformer" {
			continue
		}
		recv := ""
		if f.Signature.Recv() != nil && len(f.Params) > 0 && strings.Contains(f.Params[0].Type().String(), "OpenFgaDslListener") {
			recv = f.Params[0].Name()
		}
		for _, b := range f.Blocks {
			for _, in := range b.Instrs {
				if mu, ok := in.(*ssa.MapUpdate); ok && recv != "" && strings.HasPrefix(AccessPath(mu.Map), recv+".") {
					maps++
				}
				call, ok := in.(ssa.CallInstruction)
				if !ok {
					continue
				}
				bi, ok := call.Common().Value.(*ssa.Builtin)
				if !ok || (bi.Name() != "delete" && bi.Name() != "clear") || len(call.Common().Args) == 0 {
					continue
				}
				m := call.Common().Args[0]
				if _, isMap := m.Type().Underlying().(*types.Map); !isMap {
					continue
				}
				pth := AccessPath(m)
				held := recv != "" && strings.HasPrefix(pth, recv+".")
				if !held {
					// a helper that receives the table as a parameter: judged where the listener hands it over
					if prm, ok := m.(*ssa.Parameter); ok {
						for _, site := range callSitesOf(funcs, f) {
							for i, q := range f.Params {
								if q == prm && i < len(site.Common().Args) {
									if cf := site.Parent(); cf != nil && cf.Signature.Recv() != nil && len(cf.Params) > 0 &&
										strings.HasPrefix(AccessPath(site.Common().Args[i]), cf.Params[0].Name()+".") {
										held, pth = true, AccessPath(site.Common().Args[i])
									}
								}
							}
						}
					}
				}
				if !held {
					continue
				}
				n++
				r.Bad(rule, "table-shrinks:"+load.FuncName(f)+":"+pth, p.Pos(in.Pos()), bi.Name()+" on "+pth+": a declaration recorded earlier in the document is forgotten, so a later duplicate of it passes the check-before-insert test and is accepted")
			}
		}
	}
	switch {
	case maps == 0:
		r.Unknown(rule, "table-shrinks:anchor", "-", "no insert into a table held by the listener was found: anchors no longer resolve")
	case n == 0:
		r.OK(rule, "table-shrinks", "-", "no-delete-no-clear", fmt.Sprintf("%d insert sites, no delete or clear on a table the listener holds", maps))
	}
}

func callSitesOf(funcs []*ssa.Function, callee *ssa.Function) []ssa.CallInstruction {
	var out []ssa.CallInstruction
	for _, f := range funcs {
		for _, b := range f.Blocks {
			for _, in := range b.Instrs {
				if ci, ok := in.(ssa.CallInstruction); ok && ci.Common().StaticCallee() == callee {
					out = append(out, ci)
				}
			}
		}
	}
	return out
}

// OnlyRuntimeReportsSyntaxErrors (C03 "every grammatical layout is accepted"): what makes a document fail is what the
// grammar and the documented listener checks say — the collecting error listener is fed by the ANTLR runtime only.
// Repository code neither calls its SyntaxError method nor writes its Errors field outside that method and the
// constructor (a hand-written pre-check is a second, unreviewed grammar that can turn valid layouts down).
func OnlyRuntimeReportsSyntaxErrors(p *load.Prog, r *oblig.Report, rule string) {
	se := p.Method("transformer", "OpenFgaDslErrorListener", "SyntaxError")
	if se == nil {
		r.Unknown(rule, "error-source:anchor", "-", "(*OpenFgaDslErrorListener).SyntaxError not found")
		return
	}
	sp := p.SSAPkg["transformer"]
	var funcs []*ssa.Function
	for _, m := range sp.Members {
		if f, ok := m.(*ssa.Function); ok {
			funcs = append(funcs, f)
			funcs = append(funcs, f.AnonFuncs...)
		}
		if t, ok := m.(*ssa.Type); ok {
			for _, typ := range []types.Type{t.Type(), types.NewPointer(t.Type())} {
				ms := p.SSA.MethodSets.MethodSet(typ)
				for i := 0; i < ms.Len(); i++ {
					if f := p.SSA.MethodValue(ms.At(i)); f != nil && f.Pkg == sp && f.Synthetic == "" {
						funcs = append(funcs, f)
						funcs = append(funcs, f.AnonFuncs...)
					}
				}
			}
		}
	}
	seen := map[*ssa.Function]bool{}
	n := 0
	for _, f := range funcs {
		if seen[f] {
			continue
		}
		seen[f] = true
		for _, b := range f.Blocks {
			for _, in := range b.Instrs {
				switch x := in.(type) {
				case ssa.CallInstruction:
					cc := x.Common()
					direct := cc.StaticCallee() == se
					if mc, ok := cc.Value.(*ssa.MakeClosure); ok && mc.Fn == ssa.Value(se) {
						direct = true
					}
					if cc.IsInvoke() && cc.Method.Name() == "SyntaxError" {
						direct = true // through the antlr.ErrorListener interface
					}
					if direct {
						n++
						r.Bad(rule, "error-source:call:"+load.FuncName(f), p.Pos(in.Pos()), load.FuncName(f)+" reports a syntax error itself (a call of SyntaxError outside the ANTLR runtime): a document the grammar accepts can be turned down by a hand-written check")
					}
				case *ssa.Store:
					if fa, ok := x.Addr.(*ssa.FieldAddr); ok && f != se && !strings.HasPrefix(f.Name(), "new") {
						if st, ok := fa.X.Type().Underlying().(*types.Pointer); ok && strings.HasSuffix(st.Elem().String(), ".OpenFgaDslErrorListener") {
							if fieldNameOf(st.Elem(), fa.Field) == "Errors" {
								n++
								r.Bad(rule, "error-source:store:"+load.FuncName(f), p.Pos(in.Pos()), load.FuncName(f)+" writes the Errors field of the collecting listener outside SyntaxError: errors are added or removed behind the parser's back")
							}
						}
					}
				}
			}
		}
	}
	if n == 0 {
		r.OK(rule, "error-source", p.Pos(se.Pos()), "who-may-call", fmt.Sprintf("%d functions of the package scanned: SyntaxError is reached only through the runtime, Errors is written only by it and the constructor", len(seen)))
	}
}

// insertCheckedOnPaths: on every enumerated path of the callback (helpers followed) on which the table is written at
// key K, a lookup of that same key in that same table was branched on before, and on the paths on which it found an
// entry the error listeners were notified.
func insertCheckedOnPaths(fn *ssa.Function, mapPath string) bool {
	ex := &pathx.Explorer{Root: fn, MaxPaths: 20000}
	paths := ex.Explore()
	if ex.Overflow || len(paths) == 0 {
		return false
	}
	tail := mapPath[strings.Index(mapPath, ".")+1:] // without the receiver's name
	updates := 0
	for _, pt := range paths {
		for _, ev := range pt.Events {
			mu, ok := ev.Instr.(*ssa.MapUpdate)
			if !ok {
				continue
			}
			table := pt.Render(ev.Term(mu.Map))
			if !strings.HasSuffix(table, "."+tail) {
				continue
			}
			updates++
			slot := table + "[" + pt.Render(ev.Term(mu.Key)) + "]"
			looked, present := false, false
			for _, f := range pt.Facts(ev.NCond) {
				switch {
				case f.Atom == slot+" == nil":
					looked, present = true, !f.Value
				case f.Atom == slot+"#1":
					looked, present = true, f.Value
				}
			}
			if !looked {
				return false
			}
			if present {
				notified := false
				for _, e2 := range pt.Events {
					if e2.Seq < ev.Seq || true {
						if isNotifyCall(e2.Instr) {
							notified = true
						}
					}
				}
				if !notified {
					return false
				}
			}
		}
	}
	return updates > 0
}

// conditionCheckedOnPaths: on every enumerated path of EnterCondition (helpers followed) that reaches the creation of
// the condition object, the condition table was looked up at the name the object gets, and the paths on which an
// entry was found notified the error listeners.
func conditionCheckedOnPaths(fn *ssa.Function, create *ssa.Store) bool {
	ex := &pathx.Explorer{Root: fn, MaxPaths: 20000}
	paths := ex.Explore()
	if ex.Overflow || len(paths) == 0 {
		return false
	}
	reached := 0
	for _, pt := range paths {
		for _, ev := range pt.Events {
			if ev.Instr != ssa.Instruction(create) {
				continue
			}
			reached++
			// the name the new object is given
			lit := pt.Resolve(ev.Term(create.Val))
			name := ""
			if fv, ok := pt.Fields(lit)["Name"]; ok {
				name = pt.Render(fv)
			}
			if name == "" {
				return false
			}
			looked, present := false, false
			for _, f := range pt.Facts(ev.NCond) {
				if !strings.Contains(f.Atom, ".Conditions["+name+"]") {
					continue
				}
				switch {
				case strings.HasSuffix(f.Atom, "] == nil"):
					looked, present = true, !f.Value
				case strings.HasSuffix(f.Atom, "]#1"):
					looked, present = true, f.Value
				}
			}
			if !looked {
				return false
			}
			if present {
				notified := false
				for _, e2 := range pt.Events {
					if isNotifyCall(e2.Instr) {
						notified = true
					}
				}
				if !notified {
					return false
				}
			}
		}
	}
	return reached > 0
}

// NeverDroppedSilently (R5.4s): the paths of a callback that register a declaration in its table share a set of
// conditions (the callback's own entry guards: the object exists, has a name, is of the kind the table is for). Every
// other path of the callback that does not contradict one of those conditions — it is about a declaration of that
// same kind — registers it too or notifies the error listeners. A path that does neither has dropped the declaration
// from the bookkeeping: a later duplicate of it is then compared with nothing.
func NeverDroppedSilently(p *load.Prog, r *oblig.Report, rule string, specs []TableSpec) {
	for _, sp := range specs {
		fn := p.Method("transformer", "OpenFgaDslListener", sp.Func)
		construct := "never-dropped:" + sp.Func + ":" + sp.MapPath
		if fn == nil {
			r.Unknown(rule, construct, "-", "listener method "+sp.Func+" not found")
			continue
		}
		ex := &pathx.Explorer{Root: fn, MaxPaths: 20000}
		paths := ex.Explore()
		if ex.Overflow || len(paths) == 0 {
			r.Unknown(rule, construct, p.Pos(fn.Pos()), "the paths of the callback could not be enumerated")
			continue
		}
		tail := sp.MapPath[strings.Index(sp.MapPath, ".")+1:]
		type fact struct {
			atom string
			val  bool
		}
		var common map[fact]bool
		registers := map[int]bool{}
		for i, pt := range paths {
			for _, ev := range pt.Events {
				mu, ok := ev.Instr.(*ssa.MapUpdate)
				if !ok || !strings.HasSuffix(pt.Render(ev.Term(mu.Map)), "."+tail) {
					continue
				}
				registers[i] = true
				here := map[fact]bool{}
				for _, f := range pt.Facts(ev.NCond) {
					if strings.Contains(f.Atom, "."+tail) {
						continue // the duplicate test itself
					}
					here[fact{f.Atom, f.Value}] = true
				}
				if common == nil {
					common = here
				} else {
					for k := range common {
						if !here[k] {
							delete(common, k)
						}
					}
				}
			}
		}
		if len(registers) == 0 {
			r.Unknown(rule, construct, p.Pos(fn.Pos()), "no path of "+sp.Func+" writes "+sp.MapPath+": anchor no longer resolves")
			continue
		}
		bad := ""
		for i, pt := range paths {
			if registers[i] {
				continue
			}
			contradicts, notified := false, false
			for _, f := range pt.Facts(-1) {
				if common[fact{f.Atom, !f.Value}] {
					contradicts = true
				}
			}
			for _, ev := range pt.Events {
				if isNotifyCall(ev.Instr) {
					notified = true
				}
			}
			if pt.End == "panic" {
				continue
			}
			if !contradicts && !notified {
				bad = factList(pt.Facts(-1))
				break
			}
		}
		var cs []string
		for k := range common {
			cs = append(cs, fmt.Sprintf("%s=%v", k.atom, k.val))
		}
		sort.Strings(cs)
		if bad != "" {
			r.Bad(rule, construct, p.Pos(fn.Pos()), "a "+sp.What+" that meets the conditions under which it is registered ("+strings.Join(cs, ", ")+") leaves "+sp.Func+" on a path that neither writes "+sp.MapPath+" nor notifies the error listeners (conditions of that path: "+bad+"): a later duplicate of it is compared with nothing")
		} else {
			r.OK(rule, construct, p.Pos(fn.Pos()), "paths", fmt.Sprintf("%d paths, %d register; shared conditions: %s", len(paths), len(registers), strings.Join(cs, ", ")))
		}
	}
}

// BuiltFromOwnContext (C03.7): a model object (a pointer to a message of the OpenFGA API) that a listener callback
// stores into the model is made in that callback from the parse-tree node it was handed; it is not an object fetched
// from a table the listener keeps across declarations. Two declarations that are written differently and share a
// remembered object carry the text of whichever came first, and they share storage.
func BuiltFromOwnContext(p *load.Prog, r *oblig.Report, rule string, funcs []*ssa.Function) {
	n := 0
	for _, f := range funcs {
		if f.Pkg == nil || f.Pkg.Pkg.Name() != "transformer" || f.Signature.Recv() == nil || len(f.Params) == 0 ||
			!strings.Contains(f.Params[0].Type().String(), "OpenFgaDslListener") {
			continue
		}
		recv := f.Params[0].Name()
		var origin func(v ssa.Value, depth int) string
		origin = func(v ssa.Value, depth int) string {
			if depth > 6 {
				return ""
			}
			switch x := v.(type) {
			case *ssa.Lookup:
				if _, isMap := x.X.Type().Underlying().(*types.Map); isMap && strings.HasPrefix(AccessPath(x.X), recv+".") {
					return AccessPath(x.X)
				}
			case *ssa.Extract:
				return origin(x.Tuple, depth+1)
			case *ssa.ChangeType:
				return origin(x.X, depth+1)
			case *ssa.Phi:
				for _, e := range x.Edges {
					if o := origin(e, depth+1); o != "" {
						return o
					}
				}
			}
			return ""
		}
		for _, b := range f.Blocks {
			for _, in := range b.Instrs {
				var val ssa.Value
				var dst string
				switch x := in.(type) {
				case *ssa.MapUpdate:
					val, dst = x.Value, AccessPath(x.Map)
				case *ssa.Store:
					val, dst = x.Val, AccessPath(x.Addr)
				default:
					continue
				}
				if !strings.HasPrefix(dst, recv+".") {
					continue
				}
				pt, ok := val.Type().Underlying().(*types.Pointer)
				if !ok || !strings.Contains(pt.Elem().String(), "openfga/api/proto") {
					continue
				}
				n++
				construct := "own-context:" + f.Name() + ":" + stripUnique(dst)
				if o := origin(val, 0); o != "" && o != dst && strings.Count(o, ".") == 1 {
					r.Bad(rule, construct, p.Pos(in.Pos()), "the object written to "+stripUnique(dst)+" is fetched from the table "+o+" the listener keeps across declarations, not built from the parse-tree node of this callback: a declaration spelled differently under the same key gets the object of the earlier one, and both share it")
				} else {
					r.OK(rule, construct, p.Pos(in.Pos()), "value-origin", "not a remembered object")
				}
			}
		}
	}
	if n == 0 {
		r.Unknown(rule, "own-context", "-", "no listener callback stores a model object: anchors no longer resolve")
	}
}
