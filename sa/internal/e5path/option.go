// Package e5path holds path and provenance rules: must-check-before-success, error provenance,
// format shapes, option flow.
package e5path

import (
	"fmt"
	"go/constant"
	"go/token"
	"go/types"
	"strings"

	"golang.org/x/tools/go/ssa"

	"verif/sa/internal/load"
	"verif/sa/internal/oblig"
)

// OptionFlow (C14 clause 3): the include-source-information option may only be forwarded, as an
// argument, down to the trailing-comment helper; any other use (a branch, a comparison, a store)
// lets the option change something other than comments.
//
//	optField: the struct field holding the option; helper: the only function allowed to branch on it.
func OptionFlow(p *load.Prog, r *oblig.Report, rule string, optStruct, optField string, helper *ssa.Function, funcs []*ssa.Function) {
	if helper == nil {
		r.Unknown(rule, "anchor:comment-helper", "-", "trailing-comment helper not found")
		return
	}
	inSet := map[*ssa.Function]bool{}
	for _, f := range funcs {
		inSet[f] = true
	}
	tainted := map[ssa.Value]bool{}
	var work []ssa.Value
	add := func(v ssa.Value) {
		if !tainted[v] {
			tainted[v] = true
			work = append(work, v)
		}
	}
	nLoads := 0
	for _, f := range funcs {
		for _, b := range f.Blocks {
			for _, in := range b.Instrs {
				if u, ok := in.(*ssa.UnOp); ok && u.Op == token.MUL {
					if fa, ok := u.X.(*ssa.FieldAddr); ok && fieldIs(fa.X.Type(), fa.Field, optStruct, optField) {
						add(u)
						nLoads++
					}
				}
				if fv, ok := in.(*ssa.Field); ok && fieldIs(fv.X.Type(), fv.Field, optStruct, optField) {
					add(fv)
					nLoads++
				}
			}
		}
	}
	if nLoads == 0 {
		r.Unknown(rule, "anchor:option-field", "-", "no read of "+optStruct+"."+optField+" found: anchor no longer resolves")
		return
	}
	bad := 0
	uses := 0
	for len(work) > 0 {
		v := work[len(work)-1]
		work = work[:len(work)-1]
		refs := v.Referrers()
		if refs == nil {
			continue
		}
		for _, in := range *refs {
			uses++
			switch u := in.(type) {
			case *ssa.Call:
				callee := u.Common().StaticCallee()
				if callee == nil || !inSet[callee] && callee != helper {
					bad++
					r.Bad(rule, "option-use:"+load.FuncName(in.Parent())+":dynamic-or-external-call", p.Pos(in.Pos()), "the source-information option is passed to a callee that is not followed")
					continue
				}
				for i, a := range u.Common().Args {
					if a == v && i < len(callee.Params) {
						add(callee.Params[i])
					}
				}
			case *ssa.DebugRef:
			default:
				if in.Parent() == helper {
					continue // judged by HelperFalse
				}
				bad++
				r.Bad(rule, fmt.Sprintf("option-use:%s:%T", load.FuncName(in.Parent()), in), p.Pos(in.Pos()),
					"the source-information option is used outside the trailing-comment helper ("+strings.TrimPrefix(fmt.Sprintf("%T", in), "*ssa.")+"): it can change more than comments")
			}
		}
	}
	if bad == 0 {
		r.OK(rule, "option-flow:"+optField, p.Pos(helper.Pos()), "def-use", fmt.Sprintf("%d reads of the option, %d uses followed, all are forwards into %s", nLoads, uses, load.FuncName(helper)))
	}
}

func fieldIs(t types.Type, idx int, structName, fieldName string) bool {
	if p, ok := t.Underlying().(*types.Pointer); ok {
		t = p.Elem()
	}
	named, ok := t.(*types.Named)
	if !ok || named.Obj().Name() != structName {
		return false
	}
	st, ok := named.Underlying().(*types.Struct)
	if !ok || idx >= st.NumFields() {
		return false
	}
	return st.Field(idx).Name() == fieldName
}

// HelperFalse: with the named boolean parameter fixed to false, every reachable return of fn
// returns the empty string constant (the option switched off prints nothing).
func HelperFalse(p *load.Prog, r *oblig.Report, rule string, fn *ssa.Function, param string) {
	if fn == nil {
		r.Unknown(rule, "anchor:comment-helper", "-", "helper not found")
		return
	}
	var pv *ssa.Parameter
	for _, q := range fn.Params {
		if q.Name() == param {
			pv = q
		}
	}
	construct := "helper-off:" + load.FuncName(fn)
	if pv == nil {
		r.Unknown(rule, construct, p.Pos(fn.Pos()), "parameter "+param+" not found")
		return
	}
	// three-valued evaluation of conditions derived from the parameter
	var eval func(v ssa.Value, depth int) (bool, bool)
	eval = func(v ssa.Value, depth int) (val bool, known bool) {
		if depth > 10 {
			return false, false
		}
		if v == ssa.Value(pv) {
			return false, true
		}
		switch x := v.(type) {
		case *ssa.Const:
			if x.Value != nil && x.Value.Kind() == constant.Bool {
				return constant.BoolVal(x.Value), true
			}
		case *ssa.UnOp:
			if x.Op == token.NOT {
				if b, ok := eval(x.X, depth+1); ok {
					return !b, true
				}
			}
		}
		return false, false
	}
	seen := map[*ssa.BasicBlock]bool{}
	var stack []*ssa.BasicBlock
	if len(fn.Blocks) == 0 {
		r.Unknown(rule, construct, p.Pos(fn.Pos()), "no body")
		return
	}
	stack = append(stack, fn.Blocks[0])
	seen[fn.Blocks[0]] = true
	okAll := true
	nret := 0
	for len(stack) > 0 {
		b := stack[len(stack)-1]
		stack = stack[:len(stack)-1]
		last := b.Instrs[len(b.Instrs)-1]
		succs := b.Succs
		switch t := last.(type) {
		case *ssa.If:
			if val, ok := eval(t.Cond, 0); ok {
				if val {
					succs = b.Succs[:1]
				} else {
					succs = b.Succs[1:2]
				}
			}
		case *ssa.Return:
			nret++
			for _, res := range t.Results {
				c, isC := res.(*ssa.Const)
				if !isC || c.Value == nil || c.Value.Kind() != constant.String || constant.StringVal(c.Value) != "" {
					okAll = false
					r.Bad(rule, construct, p.Pos(t.Pos()), "with "+param+" = false the helper can still return a non-empty string: the option would change the output even when switched off")
				}
			}
		}
		for _, s := range succs {
			if !seen[s] {
				seen[s] = true
				stack = append(stack, s)
			}
		}
	}
	if okAll && nret > 0 {
		r.OK(rule, construct, p.Pos(fn.Pos()), "cfg-under-assumption", fmt.Sprintf("%d reachable returns under %s=false, all return \"\"", nret, param))
	} else if nret == 0 {
		r.Unknown(rule, construct, p.Pos(fn.Pos()), "no return reachable")
	}
}

// sprintfInfo describes a fmt.Sprintf call with a constant format.
type sprintfInfo struct {
	call   *ssa.Call
	format string
	args   []ssa.Value // operands after the format, unwrapped from the variadic slice
}

// sprintfCalls finds fmt.Sprintf / fmt.Errorf calls with constant formats in fn and recovers their operands.
func sprintfCalls(fn *ssa.Function, names ...string) []sprintfInfo {
	var out []sprintfInfo
	for _, b := range fn.Blocks {
		for _, in := range b.Instrs {
			call, ok := in.(*ssa.Call)
			if !ok {
				continue
			}
			callee := call.Common().StaticCallee()
			if callee == nil || callee.Pkg == nil || callee.Pkg.Pkg.Path() != "fmt" {
				continue
			}
			match := false
			for _, n := range names {
				if callee.Name() == n {
					match = true
				}
			}
			if !match || len(call.Common().Args) < 1 {
				continue
			}
			c, ok := call.Common().Args[0].(*ssa.Const)
			if !ok || c.Value == nil || c.Value.Kind() != constant.String {
				out = append(out, sprintfInfo{call: call, format: "\x00non-constant"})
				continue
			}
			info := sprintfInfo{call: call, format: constant.StringVal(c.Value)}
			if len(call.Common().Args) >= 2 {
				info.args = variadicOperands(call.Common().Args[1])
			}
			out = append(out, info)
		}
	}
	return out
}

// variadicOperands recovers the values stored into the []any built for a variadic call.
func variadicOperands(v ssa.Value) []ssa.Value {
	sl, ok := v.(*ssa.Slice)
	if !ok {
		return nil
	}
	alloc, ok := sl.X.(*ssa.Alloc)
	if !ok {
		return nil
	}
	var out []ssa.Value
	if refs := alloc.Referrers(); refs != nil {
		byIdx := map[int64]ssa.Value{}
		maxIdx := int64(-1)
		for _, ref := range *refs {
			ia, ok := ref.(*ssa.IndexAddr)
			if !ok {
				continue
			}
			ic, ok := ia.Index.(*ssa.Const)
			if !ok {
				continue
			}
			idx := ic.Int64()
			if irefs := ia.Referrers(); irefs != nil {
				for _, ir := range *irefs {
					if st, ok := ir.(*ssa.Store); ok {
						val := st.Val
						if mi, ok := val.(*ssa.MakeInterface); ok {
							val = mi.X
						} else if ci, ok := val.(*ssa.ChangeInterface); ok {
							val = ci.X
						}
						byIdx[idx] = val
						if idx > maxIdx {
							maxIdx = idx
						}
					}
				}
			}
		}
		for i := int64(0); i <= maxIdx; i++ {
			out = append(out, byIdx[i])
		}
	}
	return out
}

// verbPositions returns for each verb of a format its byte offset and end offset.
func verbPositions(format string) [][2]int {
	var out [][2]int
	for i := 0; i < len(format); i++ {
		if format[i] != '%' {
			continue
		}
		j := i + 1
		if j < len(format) && format[j] == '%' {
			i = j
			continue
		}
		for j < len(format) && strings.ContainsRune("+-# 0123456789.*[]", rune(format[j])) {
			j++
		}
		if j < len(format) {
			out = append(out, [2]int{i, j + 1})
			i = j
		}
	}
	return out
}

// LastOnLine (C14 clause 3): every use of the helper's result is an operand of a constant-format
// Sprintf whose verb is the last thing on its output line, and the helper's own non-empty result
// starts with " #" (the comment marker the DSL pre-pass strips).
func LastOnLine(p *load.Prog, r *oblig.Report, rule string, helper *ssa.Function, funcs []*ssa.Function) {
	if helper == nil {
		r.Unknown(rule, "anchor:comment-helper", "-", "helper not found")
		return
	}
	// the helper's non-empty form: every returned string is "" or starts with " #" and stays on one line
	shapeConstruct := "comment-shape:" + load.FuncName(helper)
	rts := ReturnTemplates(helper)
	nonEmpty := 0
	for _, t := range rts {
		if len(t) == 0 {
			continue
		}
		nonEmpty++
		okT := t[0].Val == nil && strings.HasPrefix(t[0].Lit, " #")
		for _, pc := range t {
			if pc.Val == nil && strings.Contains(pc.Lit, "\n") {
				okT = false
			}
		}
		if !okT {
			r.Bad(rule, shapeConstruct, p.Pos(helper.Pos()), fmt.Sprintf("the source comment is built as %q: it must start with \" #\" and stay on one line", TemplateString(t)))
		}
	}
	if nonEmpty == 0 {
		r.Unknown(rule, shapeConstruct, p.Pos(helper.Pos()), "no non-empty string returned by the helper could be read as a template")
	} else if !hasRec(r, rule, shapeConstruct) {
		r.OK(rule, shapeConstruct, p.Pos(helper.Pos()), "constant-prefix", "non-empty comment starts with \" #\" and contains no line break")
	}
	n := 0
	for _, f := range funcs {
		for _, b := range f.Blocks {
			for _, in := range b.Instrs {
				call, ok := in.(*ssa.Call)
				if !ok || call.Common().StaticCallee() != helper {
					continue
				}
				n++
				construct := fmt.Sprintf("comment-use:%s", load.FuncName(f))
				refs := call.Referrers()
				if refs == nil || len(*refs) == 0 {
					r.OK(rule, construct, p.Pos(call.Pos()), "unused", "result unused")
					continue
				}
				okUse := true
				builderWrites, builderBad := 0, ""
				for _, ref := range *refs {
					switch x := ref.(type) {
					case *ssa.DebugRef, *ssa.MakeInterface:
					case *ssa.BinOp:
						if x.Op != token.ADD {
							okUse = false
						}
					case *ssa.Call:
						// written into a strings.Builder: whatever is written into the same builder next starts a new line
						if isBuilderWrite(x) && len(x.Common().Args) == 2 && x.Common().Args[1] == ssa.Value(call) {
							builderWrites++
							if why := nextBuilderWriteStartsLine(x); why != "" {
								builderBad = why
							}
						} else {
							okUse = false
						}
					default:
						okUse = false
					}
					if !okUse {
						r.Bad(rule, construct, p.Pos(ref.Pos()), "the source comment is used other than as an operand of a Sprintf or of a string concatenation")
						break
					}
				}
				if !okUse {
					continue
				}
				if builderWrites > 0 && builderWrites == len(*refs) {
					if builderBad != "" {
						r.Bad(rule, construct, p.Pos(call.Pos()), builderBad)
					} else {
						r.OK(rule, construct, p.Pos(call.Pos()), "last-on-line (builder)", "whatever is written into the same builder after the comment starts with a line break")
					}
					continue
				}
				// every string built in f in which the comment occurs: nothing follows it on its line
				found, bad := false, ""
				for _, bb := range f.Blocks {
					for _, in2 := range bb.Instrs {
						v, isVal := in2.(ssa.Value)
						if !isVal || !isStringType(v.Type()) {
							continue
						}
						switch x := in2.(type) {
						case *ssa.Call:
							if c := x.Common().StaticCallee(); c == nil || c.Pkg == nil || c.Pkg.Pkg.Path() != "fmt" {
								continue
							}
						case *ssa.BinOp:
							if x.Op != token.ADD {
								continue
							}
						default:
							continue
						}
						for _, t := range Templates(v, helper) {
							t = Normalise(t)
							for i, pc := range t {
								if pc.Val != ssa.Value(call) {
									continue
								}
								found = true
								rest := ""
								for _, q := range t[i+1:] {
									if q.Val != nil {
										rest += "‹…›"
										continue
									}
									if nl := strings.IndexByte(q.Lit, '\n'); nl >= 0 {
										rest += q.Lit[:nl]
										break
									}
									rest += q.Lit
								}
								if rest != "" {
									bad = fmt.Sprintf("in %q the source comment is followed by %q on the same line: everything after it becomes comment text", TemplateString(t), rest)
								}
							}
						}
					}
				}
				switch {
				case bad != "":
					r.Bad(rule, construct, p.Pos(call.Pos()), bad)
				case found:
					r.OK(rule, construct, p.Pos(call.Pos()), "last-on-line", "nothing follows the comment on its output line in any string it is built into")
				default:
					r.Bad(rule, construct, p.Pos(call.Pos()), "the source comment does not reach a Sprintf or concatenation that could be read as a template")
				}
			}
		}
	}
	if n == 0 {
		r.Unknown(rule, "comment-use", "-", "no call of the trailing-comment helper found")
	}
}

func hasRec(r *oblig.Report, rule, construct string) bool {
	for _, rec := range r.Records {
		if rec.Rule == rule && rec.Construct == construct {
			return true
		}
	}
	return false
}

func isBuilderWrite(c *ssa.Call) bool {
	cal := c.Common().StaticCallee()
	return cal != nil && cal.String() == "(*strings.Builder).WriteString"
}

// nextBuilderWriteStartsLine: on every path after the given write into a strings.Builder, the next thing done with
// that builder is a write of text that begins with a line break, or reading the result; "" when so, else the reason.
func nextBuilderWriteStartsLine(w *ssa.Call) string {
	recv := w.Common().Args[0]
	type pos struct {
		b *ssa.BasicBlock
		i int
	}
	seen := map[*ssa.BasicBlock]bool{}
	work := []pos{{w.Block(), indexOf(w) + 1}}
	for len(work) > 0 {
		cur := work[len(work)-1]
		work = work[:len(work)-1]
		stopped := false
		for i := cur.i; i < len(cur.b.Instrs); i++ {
			c, ok := cur.b.Instrs[i].(*ssa.Call)
			if !ok || len(c.Common().Args) == 0 || c.Common().Args[0] != recv {
				continue
			}
			cal := c.Common().StaticCallee()
			if cal == nil {
				return "the builder the source comment was written into is handed to an unknown callee"
			}
			switch cal.String() {
			case "(*strings.Builder).String", "(*strings.Builder).Len":
				stopped = true
			case "(*strings.Builder).WriteString":
				ok := false
				for _, t := range Templates(c.Common().Args[1], nil) {
					t = Normalise(t)
					ok = len(t) > 0 && t[0].Val == nil && strings.HasPrefix(t[0].Lit, "\n")
					if !ok {
						break
					}
				}
				if k, isC := c.Common().Args[1].(*ssa.Const); isC && k.Value != nil {
					ok = strings.HasPrefix(constant.StringVal(k.Value), "\n")
				}
				if !ok {
					return "after the source comment, text that does not begin with a line break is written into the same builder: it becomes comment text"
				}
				stopped = true
			case "(*strings.Builder).WriteByte", "(*strings.Builder).WriteRune":
				k, isC := c.Common().Args[1].(*ssa.Const)
				if !isC || k.Value == nil || k.Int64() != '\n' {
					return "after the source comment, a character that is not a line break is written into the same builder"
				}
				stopped = true
			default:
				return "the builder the source comment was written into is used by " + cal.String()
			}
			if stopped {
				break
			}
		}
		if stopped {
			continue
		}
		for _, s := range cur.b.Succs {
			if !seen[s] {
				seen[s] = true
				work = append(work, pos{s, 0})
			}
		}
	}
	return ""
}

func indexOf(in ssa.Instruction) int {
	for i, x := range in.Block().Instrs {
		if x == in {
			return i
		}
	}
	return 0
}
