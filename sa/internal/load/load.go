// Package load type-checks /repo/pkg/go on every run and builds the SSA program and call graph
// every engine works on. Nothing from the repository is executed.
package load

import (
	"fmt"
	"go/ast"
	"go/token"
	"go/types"
	"os"
	"path/filepath"
	"sort"
	"strings"

	"golang.org/x/tools/go/callgraph"
	"golang.org/x/tools/go/callgraph/cha"
	"golang.org/x/tools/go/callgraph/vta"
	"golang.org/x/tools/go/packages"
	"golang.org/x/tools/go/ssa"
	"golang.org/x/tools/go/ssa/ssautil"
)

const ModPath = "github.com/openfga/language/pkg/go"

// RepoRoot returns the repository root that is analysed (default /repo; VERIF_REPO overrides it
// so that the same binary can be pointed at a scratch worktree when the checker itself is tested).
func RepoRoot() string {
	if r := os.Getenv("VERIF_REPO"); r != "" {
		return r
	}
	return "/repo"
}

// Prog is the resolved program.
type Prog struct {
	Root   string
	Fset   *token.FileSet
	Pkgs   map[string]*packages.Package // by short name: transformer, graph, utils, validation, errors, gen
	All    []*packages.Package          // every package loaded, dependencies included
	SSA    *ssa.Program
	SSAPkg map[string]*ssa.Package
	cg     *callgraph.Graph
}

// Short names of the repository packages that must be present.
var RepoPkgs = []string{"errors", "gen", "graph", "transformer", "utils", "validation"}

// Load loads all repository packages with syntax and types for all dependencies. When needSSA is
// false only the syntax trees and type information are produced (faster).
func Load(needSSA bool) (*Prog, error) { return LoadPatterns(needSSA, "./...") }

// Memo makes LoadPatterns return the program of an earlier identical request of this process. It is
// set only by the dev-time command "verif checkall", which runs several checks over one tree in one
// process; a registered check always loads afresh.
var Memo bool

var memo = map[string]*Prog{}

// LoadPatterns loads the given package patterns (relative to /repo/pkg/go).
func LoadPatterns(needSSA bool, patterns ...string) (*Prog, error) {
	if !Memo {
		return loadPatterns(needSSA, patterns...)
	}
	key := fmt.Sprint(needSSA, patterns, RepoRoot())
	if p, ok := memo[key]; ok {
		return p, nil
	}
	p, err := loadPatterns(needSSA, patterns...)
	if err == nil {
		memo[key] = p
	}
	return p, err
}

func loadPatterns(needSSA bool, patterns ...string) (*Prog, error) {
	root := RepoRoot()
	dir := filepath.Join(root, "pkg", "go")
	mode := packages.NeedName | packages.NeedFiles | packages.NeedCompiledGoFiles | packages.NeedImports |
		packages.NeedDeps | packages.NeedTypes | packages.NeedSyntax | packages.NeedTypesInfo | packages.NeedTypesSizes | packages.NeedModule
	env := append(os.Environ(), "GOFLAGS=-mod=mod", "GOPROXY=off", "GOSUMDB=off", "GOTOOLCHAIN=local", "GOWORK=off")
	cfg := &packages.Config{Mode: mode, Dir: dir, Env: env, Tests: false}
	if tags := os.Getenv("VERIF_TAGS"); tags != "" {
		cfg.BuildFlags = []string{"-tags=" + tags}
	} else {
		cfg.BuildFlags = []string{"-tags=verif"}
	}
	initial, err := packages.Load(cfg, patterns...)
	if err != nil {
		return nil, fmt.Errorf("packages.Load: %w", err)
	}
	p := &Prog{Root: root, Pkgs: map[string]*packages.Package{}, SSAPkg: map[string]*ssa.Package{}}
	nerr := 0
	packages.Visit(initial, nil, func(pk *packages.Package) {
		p.All = append(p.All, pk)
		for _, e := range pk.Errors {
			if strings.HasPrefix(pk.PkgPath, ModPath) {
				fmt.Fprintf(os.Stderr, "type error in %s: %v\n", pk.PkgPath, e)
				nerr++
			}
		}
	})
	if nerr > 0 {
		return nil, fmt.Errorf("%d load/type errors in repository packages", nerr)
	}
	for _, pk := range initial {
		if !strings.HasPrefix(pk.PkgPath, ModPath+"/") {
			continue
		}
		short := strings.TrimPrefix(pk.PkgPath, ModPath+"/")
		p.Pkgs[short] = pk
		if p.Fset == nil {
			p.Fset = pk.Fset
		}
	}
	if len(p.Pkgs) == 0 {
		return nil, fmt.Errorf("no repository package loaded for %v", patterns)
	}
	for _, want := range RepoPkgs {
		if len(patterns) != 1 || patterns[0] != "./..." {
			break
		}
		if p.Pkgs[want] == nil {
			return nil, fmt.Errorf("repository package %q not loaded (got %d packages)", want, len(p.Pkgs))
		}
	}
	for short, pk := range p.Pkgs {
		if pk.Types == nil || len(pk.Syntax) == 0 {
			return nil, fmt.Errorf("repository package %q has no syntax/types", short)
		}
	}
	if needSSA {
		prog, _ := ssautil.AllPackages(initial, ssa.InstantiateGenerics)
		prog.Build()
		p.SSA = prog
		for short, pk := range p.Pkgs {
			sp := prog.Package(pk.Types)
			if sp == nil {
				return nil, fmt.Errorf("no SSA package for %s", short)
			}
			p.SSAPkg[short] = sp
		}
	}
	return p, nil
}

// IsRepoPkg reports whether the types.Package belongs to the repository module.
func IsRepoPkg(pk *types.Package) bool {
	return pk != nil && strings.HasPrefix(pk.Path(), ModPath+"/")
}

// ShortPkg returns transformer/graph/... for a repository package, "" otherwise.
func ShortPkg(pk *types.Package) string {
	if !IsRepoPkg(pk) {
		return ""
	}
	return strings.TrimPrefix(pk.Path(), ModPath+"/")
}

// FuncPkg returns the defining package of an SSA function (origin for instantiations, parent for closures).
func FuncPkg(f *ssa.Function) *types.Package {
	for f != nil {
		if f.Pkg != nil {
			return f.Pkg.Pkg
		}
		if o := f.Origin(); o != nil && o != f {
			f = o
			continue
		}
		if f.Parent() != nil {
			f = f.Parent()
			continue
		}
		if f.Object() != nil && f.Object().Pkg() != nil {
			return f.Object().Pkg()
		}
		return nil
	}
	return nil
}

// CallGraph builds (once) the VTA call graph seeded with CHA.
func (p *Prog) CallGraph() *callgraph.Graph {
	if p.cg == nil {
		p.cg = vta.CallGraph(ssautil.AllFunctions(p.SSA), cha.CallGraph(p.SSA))
	}
	return p.cg
}

// Func looks up a package-level function of a repository package.
func (p *Prog) Func(pkg, name string) *ssa.Function {
	sp := p.SSAPkg[pkg]
	if sp == nil {
		return nil
	}
	if f := sp.Func(name); f != nil {
		return f
	}
	// the function may have been turned into a method (same name, some receiver of this package):
	// accepted when exactly one method of that name is declared in the package
	return p.uniqueMethodNamed(pkg, name)
}

// SiblingMethods are methods that exist beside a package-level function of the same name (the weighted builder's
// translation steps beside the plain builder's functions). When the plain function is looked up by bare name after
// it was turned into a method, these are not candidates: they are anchors of their own.
var SiblingMethods = map[string]bool{
	"graph.WeightedAuthorizationModelGraphBuilder.parseThis":           true,
	"graph.WeightedAuthorizationModelGraphBuilder.parseComputed":       true,
	"graph.WeightedAuthorizationModelGraphBuilder.parseTupleToUserset": true,
	"graph.WeightedAuthorizationModelGraphBuilder.parseRewrite":        true,
}

// uniqueMethodNamed: the one declared method called name on any named type of the package, or nil.
func (p *Prog) uniqueMethodNamed(pkg, name string) *ssa.Function {
	pk := p.Pkgs[pkg]
	if pk == nil || p.SSA == nil {
		return nil
	}
	var found []*ssa.Function
	scope := pk.Types.Scope()
	for _, n := range scope.Names() {
		tn, ok := scope.Lookup(n).(*types.TypeName)
		if !ok {
			continue
		}
		named, ok := tn.Type().(*types.Named)
		if !ok {
			continue
		}
		for i := 0; i < named.NumMethods(); i++ {
			m := named.Method(i)
			if m.Name() != name || SiblingMethods[pkg+"."+n+"."+name] {
				continue
			}
			if f := p.SSA.FuncValue(m); f != nil && f.Synthetic == "" {
				found = append(found, f)
			}
		}
	}
	if len(found) == 1 {
		return found[0]
	}
	return nil
}

// Method looks up method name on named type typ (pointer receiver tried first) of a repository package.
func (p *Prog) Method(pkg, typ, name string) *ssa.Function {
	pk := p.Pkgs[pkg]
	if pk == nil {
		return nil
	}
	var named *types.Named
	if obj := pk.Types.Scope().Lookup(typ); obj != nil {
		named, _ = obj.Type().(*types.Named)
	}
	for _, t := range []types.Type{types.NewPointer(named), named} {
		if named == nil {
			break
		}
		ms := p.SSA.MethodSets.MethodSet(t)
		if sel := ms.Lookup(pk.Types, name); sel != nil {
			if f := p.SSA.MethodValue(sel); f != nil {
				// skip promoted wrappers: we want the declared method
				if f.Synthetic == "" {
					return f
				}
			}
		}
	}
	// the method may have been turned into a plain function, or moved to another receiver of the package
	if sp := p.SSAPkg[pkg]; sp != nil {
		if f := sp.Func(name); f != nil {
			return f
		}
	}
	return p.uniqueMethodNamed(pkg, name)
}

// FuncDecl finds the syntax of a function or method ("Recv.Name" or "Name") in a repository package.
func (p *Prog) FuncDecl(pkg, name string) (*ast.FuncDecl, *packages.Package) {
	pk := p.Pkgs[pkg]
	if pk == nil {
		return nil, nil
	}
	for _, f := range pk.Syntax {
		for _, d := range f.Decls {
			fd, ok := d.(*ast.FuncDecl)
			if !ok {
				continue
			}
			if DeclName(fd) == name {
				return fd, pk
			}
		}
	}
	// function <-> method conversions keep the bare name: accept a unique declaration with that bare name
	bare := name
	if i := strings.LastIndex(name, "."); i >= 0 {
		bare = name[i+1:]
	}
	var cands []*ast.FuncDecl
	for _, f := range pk.Syntax {
		for _, d := range f.Decls {
			if fd, ok := d.(*ast.FuncDecl); ok && fd.Name.Name == bare && !SiblingMethods[pkg+"."+DeclName(fd)] {
				cands = append(cands, fd)
			}
		}
	}
	if len(cands) == 1 {
		return cands[0], pk
	}
	return nil, pk
}

// DeclName returns "Recv.Name" for methods (pointer stripped) and "Name" for functions.
func DeclName(fd *ast.FuncDecl) string {
	if fd.Recv == nil || len(fd.Recv.List) == 0 {
		return fd.Name.Name
	}
	t := fd.Recv.List[0].Type
	if s, ok := t.(*ast.StarExpr); ok {
		t = s.X
	}
	if ix, ok := t.(*ast.IndexExpr); ok {
		t = ix.X
	}
	if id, ok := t.(*ast.Ident); ok {
		return id.Name + "." + fd.Name.Name
	}
	return fd.Name.Name
}

// AllFuncDecls lists every function declaration of the non-generated repository packages
// (gen is included only when withGen is set), sorted by package and name.
func (p *Prog) AllFuncDecls(withGen bool) []DeclRef {
	var out []DeclRef
	for short, pk := range p.Pkgs {
		if short == "gen" && !withGen {
			continue
		}
		for _, f := range pk.Syntax {
			for _, d := range f.Decls {
				if fd, ok := d.(*ast.FuncDecl); ok && fd.Body != nil {
					out = append(out, DeclRef{Pkg: short, Name: DeclName(fd), Decl: fd, P: pk})
				}
			}
		}
	}
	sort.Slice(out, func(i, j int) bool {
		if out[i].Pkg != out[j].Pkg {
			return out[i].Pkg < out[j].Pkg
		}
		return out[i].Name < out[j].Name
	})
	return out
}

// DeclRef is a function declaration with its package.
type DeclRef struct {
	Pkg  string
	Name string
	Decl *ast.FuncDecl
	P    *packages.Package
}

// Pos renders a position relative to the repository root (for humans only; never a key).
func (p *Prog) Pos(pos token.Pos) string {
	if !pos.IsValid() {
		return "-"
	}
	ps := p.Fset.Position(pos)
	rel, err := filepath.Rel(p.Root, ps.Filename)
	if err != nil {
		rel = ps.Filename
	}
	return fmt.Sprintf("%s:%d", rel, ps.Line)
}

// FuncName renders an SSA function as pkg.(Recv).Name using short package names.
func FuncName(f *ssa.Function) string {
	if f == nil {
		return "<nil>"
	}
	s := f.RelString(nil)
	s = strings.ReplaceAll(s, ModPath+"/", "")
	s = strings.ReplaceAll(s, "github.com/openfga/api/proto/openfga/v1", "openfgav1")
	return s
}

// Reachable returns the set of functions reachable from roots in the call graph, restricted by keep
// (functions for which keep is false are neither included nor traversed).
func (p *Prog) Reachable(roots []*ssa.Function, keep func(*ssa.Function) bool) map[*ssa.Function]bool {
	cg := p.CallGraph()
	seen := map[*ssa.Function]bool{}
	var stack []*ssa.Function
	for _, r := range roots {
		if r != nil && !seen[r] && keep(r) {
			seen[r] = true
			stack = append(stack, r)
		}
	}
	for len(stack) > 0 {
		f := stack[len(stack)-1]
		stack = stack[:len(stack)-1]
		n := cg.Nodes[f]
		if n != nil {
			for _, e := range n.Out {
				c := e.Callee.Func
				if c != nil && !seen[c] && keep(c) {
					seen[c] = true
					stack = append(stack, c)
				}
			}
		}
		// closures defined inside f are considered reachable with f
		for _, an := range f.AnonFuncs {
			if !seen[an] && keep(an) {
				seen[an] = true
				stack = append(stack, an)
			}
		}
	}
	return seen
}

// InRepoNonGen is the usual keep-filter: repository code outside the generated package.
func InRepoNonGen(f *ssa.Function) bool {
	pk := FuncPkg(f)
	if !IsRepoPkg(pk) {
		return false
	}
	return ShortPkg(pk) != "gen"
}

// InRepo keeps all repository code, generated included.
func InRepo(f *ssa.Function) bool { return IsRepoPkg(FuncPkg(f)) }

// SortedFuncs returns the functions of a set ordered by name.
func SortedFuncs(m map[*ssa.Function]bool) []*ssa.Function {
	out := make([]*ssa.Function, 0, len(m))
	for f := range m {
		out = append(out, f)
	}
	sort.Slice(out, func(i, j int) bool {
		a, b := FuncName(out[i]), FuncName(out[j])
		if a != b {
			return a < b
		}
		return out[i].Pos() < out[j].Pos()
	})
	return out
}

// WithHelpers returns fd followed by the declarations of the functions of the same package that fd calls
// statically, transitively up to depth levels (each once). Rules that look for an idiom "in function F"
// use it so that moving the idiom into an unexported helper of F does not hide it.
func (p *Prog) WithHelpers(pk *packages.Package, fd *ast.FuncDecl, depth int) []*ast.FuncDecl {
	if fd == nil || pk == nil {
		return nil
	}
	decls := map[*types.Func]*ast.FuncDecl{}
	for _, f := range pk.Syntax {
		for _, d := range f.Decls {
			if x, ok := d.(*ast.FuncDecl); ok && x.Body != nil {
				if fn, ok := pk.TypesInfo.Defs[x.Name].(*types.Func); ok {
					decls[fn] = x
				}
			}
		}
	}
	out := []*ast.FuncDecl{fd}
	seen := map[*ast.FuncDecl]bool{fd: true}
	frontier := []*ast.FuncDecl{fd}
	for level := 0; level < depth; level++ {
		var next []*ast.FuncDecl
		for _, cur := range frontier {
			ast.Inspect(cur.Body, func(n ast.Node) bool {
				call, ok := n.(*ast.CallExpr)
				if !ok {
					return true
				}
				var id *ast.Ident
				switch f := call.Fun.(type) {
				case *ast.Ident:
					id = f
				case *ast.SelectorExpr:
					id = f.Sel
				case *ast.IndexExpr:
					if x, ok := f.X.(*ast.Ident); ok {
						id = x
					}
				}
				if id == nil {
					return true
				}
				fn, _ := pk.TypesInfo.Uses[id].(*types.Func)
				if fn != nil && fn.Origin() != nil {
					fn = fn.Origin()
				}
				if d := decls[fn]; d != nil && !seen[d] {
					seen[d] = true
					out = append(out, d)
					next = append(next, d)
				}
				return true
			})
		}
		frontier = next
	}
	return out
}
