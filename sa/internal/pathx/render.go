package pathx

import (
	"fmt"
	"go/token"
	"go/types"
	"strings"

	"golang.org/x/tools/go/ssa"
)

// Render gives the canonical spelling of a value on a path: field selections, getters, pure library calls and
// arithmetic are spelled out over what the path determines their operands to be; a value that cannot be traced
// further is named after the instruction (and activation) that produced it. Two values with the same spelling
// are the same value on that path.
func (p *Path) Render(t Term) string { return p.render(t, 0) }

func (p *Path) render(t Term, depth int) string {
	t = p.Resolve(t)
	if t.V == nil {
		return "‹none›"
	}
	if depth > 14 {
		return unique(t)
	}
	sub := func(v ssa.Value) string { return p.render(t.Sub(v), depth+1) }
	switch x := t.V.(type) {
	case *ssa.Parameter:
		return x.Name()
	case *ssa.FreeVar:
		if b, ok := t.F.free[x]; ok {
			return p.render(b, depth+1)
		}
		return x.Name()
	case *ssa.Global:
		return x.Name()
	case *ssa.Alloc:
		if x.Comment != "" && x.Comment != "complit" && x.Comment != "varargs" {
			return x.Comment
		}
	case *ssa.FieldAddr:
		return sub(x.X) + "." + fieldName(x.X.Type(), x.Field)
	case *ssa.Field:
		return sub(x.X) + "." + fieldName(x.X.Type(), x.Field)
	case *ssa.UnOp:
		switch x.Op {
		case token.MUL:
			return sub(x.X)
		case token.NOT:
			return "!" + sub(x.X)
		case token.SUB:
			return "-" + sub(x.X)
		}
	case *ssa.MakeInterface:
		return sub(x.X)
	case *ssa.ChangeInterface:
		return sub(x.X)
	case *ssa.ChangeType:
		return sub(x.X)
	case *ssa.Convert:
		return sub(x.X)
	case *ssa.Const:
		if x.IsNil() || x.Value == nil {
			return "nil"
		}
		return x.Value.ExactString()
	case *ssa.TypeAssert:
		// the payload wrapper of a protobuf oneof reached through a type assertion / type switch: named like the getter chain
		if pt, ok := x.AssertedType.(*types.Pointer); ok {
			if nt, ok := pt.Elem().(*types.Named); ok && strings.Contains(nt.Obj().Name(), "_") && nt.Obj().Pkg() != nil && strings.HasPrefix(nt.Obj().Pkg().Path(), "github.com/openfga/api/proto") {
				inner := sub(x.X)
				if i := strings.LastIndex(inner, "."); i > 0 && !strings.HasSuffix(inner, ")") {
					return inner[:i]
				}
			}
		}
	case *ssa.Extract:
		if ta, ok := x.Tuple.(*ssa.TypeAssert); ok && ta.CommaOk && x.Index == 0 {
			if s := sub(ta); !strings.HasPrefix(s, "‹") {
				return s
			}
		}
		return sub(x.Tuple) + fmt.Sprintf("#%d", x.Index)
	case *ssa.Lookup:
		return sub(x.X) + "[" + sub(x.Index) + "]"
	case *ssa.IndexAddr:
		return sub(x.X) + "[" + sub(x.Index) + "]"
	case *ssa.Index:
		return sub(x.X) + "[" + sub(x.Index) + "]"
	case *ssa.BinOp:
		return "(" + sub(x.X) + " " + x.Op.String() + " " + sub(x.Y) + ")"
	case *ssa.Slice:
		lo, hi := "", ""
		if x.Low != nil {
			lo = sub(x.Low)
		}
		if x.High != nil {
			hi = sub(x.High)
		}
		return sub(x.X) + "[" + lo + ":" + hi + "]"
	case *ssa.Call:
		cc := x.Common()
		if b, isB := cc.Value.(*ssa.Builtin); isB && (b.Name() == "len" || b.Name() == "cap") && len(cc.Args) == 1 {
			return b.Name() + "(" + sub(cc.Args[0]) + ")"
		}
		if cc.IsInvoke() {
			if len(cc.Args) == 0 {
				return sub(cc.Value) + "." + cc.Method.Name() + "()"
			}
			return unique(t)
		}
		callee := cc.StaticCallee()
		if callee == nil {
			return unique(t)
		}
		o := callee
		if callee.Origin() != nil {
			o = callee.Origin()
		}
		if o.Signature.Recv() == nil && o.Pkg != nil && PureLibrary(o.Pkg.Pkg.Path(), o.Name()) {
			parts := make([]string, len(cc.Args))
			for i, a := range cc.Args {
				parts[i] = sub(a)
			}
			return o.Pkg.Pkg.Name() + "." + o.Name() + "(" + strings.Join(parts, ", ") + ")"
		}
		if o.Signature.Recv() != nil && len(cc.Args) == 1 {
			name := o.Name()
			if o.Pkg != nil && strings.HasPrefix(o.Pkg.Pkg.Path(), "github.com/openfga/api/proto") && strings.HasPrefix(name, "Get") {
				return sub(cc.Args[0]) + "." + strings.TrimPrefix(name, "Get")
			}
			return sub(cc.Args[0]) + "." + name + "()"
		}
	}
	return unique(t)
}

// PureLibrary: the result of the function depends on its arguments only.
func PureLibrary(pkg, name string) bool {
	switch pkg {
	case "strings":
		return name != "NewReader" && name != "NewReplacer"
	case "net/url":
		return name == "QueryUnescape" || name == "PathUnescape" || name == "QueryEscape" || name == "PathEscape"
	case "path", "path/filepath":
		return name != "Walk" && name != "WalkDir" && name != "Glob" && name != "Abs" && name != "EvalSymlinks"
	case "strconv", "unicode", "unicode/utf8", "cmp":
		return true
	case "slices":
		switch name {
		case "Contains", "Index", "ContainsFunc", "IndexFunc", "Equal":
			return true
		}
	}
	return false
}

func unique(t Term) string {
	id := 0
	if t.F != nil {
		id = t.F.ID
	}
	return fmt.Sprintf("‹%s@%p:%d›", t.V.Name(), t.V, id)
}

func fieldName(t types.Type, idx int) string {
	if p, ok := t.Underlying().(*types.Pointer); ok {
		t = p.Elem()
	}
	if st, ok := t.Underlying().(*types.Struct); ok && idx < st.NumFields() {
		return st.Field(idx).Name()
	}
	return fmt.Sprintf("f%d", idx)
}

// StripUnique removes the addresses from the names of untraceable values (for messages and stable keys).
func StripUnique(s string) string {
	var b strings.Builder
	for i := 0; i < len(s); {
		if strings.HasPrefix(s[i:], "‹") {
			j := strings.Index(s[i:], "›")
			if j < 0 {
				break
			}
			inner := s[i+len("‹") : i+j]
			if k := strings.Index(inner, "@"); k >= 0 {
				inner = inner[:k]
			}
			b.WriteString("‹" + inner + "›")
			i += j + len("›")
			continue
		}
		b.WriteByte(s[i])
		i++
	}
	return b.String()
}

// Fields lists what the path stores into the fields of a struct literal (the last store per field).
func (p *Path) Fields(lit Term) map[string]Term {
	out := map[string]Term{}
	al, ok := lit.V.(*ssa.Alloc)
	if !ok {
		return out
	}
	for _, ev := range p.Events {
		st, ok := ev.Instr.(*ssa.Store)
		if !ok || ev.F != lit.F || ev.E != lit.E {
			continue
		}
		fa, ok := st.Addr.(*ssa.FieldAddr)
		if !ok || fa.X != ssa.Value(al) {
			continue
		}
		out[fieldName(al.Type(), fa.Field)] = p.Resolve(ev.Term(st.Val))
	}
	return out
}

// CondFacts renders the conditions of the path taken before an event, each normalised to a positive atom and the
// truth value it has on the path: "!" prefixes are folded into the value, "a != b" is given as "a == b" false.
type Fact struct {
	Atom  string
	Value bool
	Cond  Cond
}

func (p *Path) Facts(n int) []Fact {
	if n > len(p.Conds) || n < 0 {
		n = len(p.Conds)
	}
	out := make([]Fact, 0, n)
	for _, c := range p.Conds[:n] {
		out = append(out, p.FactOf(c))
	}
	return out
}

// FactOf normalises one condition.
func (p *Path) FactOf(c Cond) Fact {
	t, val := p.Resolve(c.T), c.Branch
	for {
		u, ok := t.V.(*ssa.UnOp)
		if !ok || u.Op != token.NOT {
			break
		}
		t, val = p.Resolve(t.Sub(u.X)), !val
	}
	if bo, ok := t.V.(*ssa.BinOp); ok {
		l, r := p.render(t.Sub(bo.X), 0), p.render(t.Sub(bo.Y), 0)
		op := bo.Op
		switch op {
		case token.NEQ:
			op, val = token.EQL, !val
		case token.GEQ:
			op, val = token.LSS, !val
		case token.LEQ:
			op, val = token.GTR, !val
		}
		if op == token.EQL && r < l {
			// constants on the right, otherwise alphabetical
			if _, isC := p.Resolve(t.Sub(bo.Y)).V.(*ssa.Const); !isC {
				l, r = r, l
			}
		}
		if op == token.EQL {
			if _, isC := p.Resolve(t.Sub(bo.X)).V.(*ssa.Const); isC {
				if _, isC2 := p.Resolve(t.Sub(bo.Y)).V.(*ssa.Const); !isC2 {
					l, r = p.render(t.Sub(bo.Y), 0), p.render(t.Sub(bo.X), 0)
				}
			}
		}
		return Fact{Atom: l + " " + op.String() + " " + r, Value: val, Cond: c}
	}
	return Fact{Atom: p.render(t, 0), Value: val, Cond: c}
}
