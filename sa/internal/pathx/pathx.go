// Package pathx enumerates the paths of a function in SSA form, following the helpers of its own package
// (functions, methods and local closures) into their bodies, and keeps for every path the branch conditions
// taken and the effects met, with every value traced back through parameters, results, local variables and
// branch joins to where it was computed. No code is run and no solver is asked: a branch is followed one way
// only when its condition is a constant on that path (a message that is "" on one way and a concatenation on
// the other, a nil error returned next to a value, a list something was just appended to), both ways otherwise.
//
// Rules that are about the conditions under which something happens (an entry is accepted, an error is
// appended, a value is returned) are decided on these paths, so that they do not depend on how the code is cut
// into helpers, which way round a test is written, or whether a message is chosen first and reported later.
package pathx

import (
	"fmt"
	"go/constant"
	"go/token"
	"go/types"
	"strings"

	"golang.org/x/tools/go/ssa"
)

// Frame is one activation of a function on a path.
type Frame struct {
	Fn     *ssa.Function
	Parent *Frame
	Site   ssa.CallInstruction
	ID     int
	args   map[*ssa.Parameter]Term
	free   map[*ssa.FreeVar]Term
	depth  int
}

// Term is a value in the activation that computed it.
type Term struct {
	V ssa.Value
	F *Frame
	E int // epoch: how many loop re-entries the path had made when the value was current
}

func (t Term) IsZero() bool { return t.V == nil }

// Sub is an operand of the instruction that computes t: a value of the same activation at the same time.
func (t Term) Sub(v ssa.Value) Term { return Term{v, t.F, t.E} }

// Term is a value as it is when the event happens.
func (e Event) Term(v ssa.Value) Term { return Term{v, e.F, e.E} }

// Cond is a branch condition as taken on a path.
type Cond struct {
	T      Term
	Branch bool
	If     *ssa.If
}

// Event is an effect met on a path: a call that is not followed, a store, a map update or a return.
type Event struct {
	Instr ssa.Instruction
	F     *Frame
	NCond int // number of conditions of the path taken before the event
	Seq   int
	E     int
}

// Visit records that a path entered a block.
type Visit struct {
	B   *ssa.BasicBlock
	F   *Frame
	Seq int
}

// Path is one explored path.
type Path struct {
	Conds  []Cond
	Events []Event
	Trace  []Visit
	End    string // "return", "panic", "cut" (loop bound or depth), "stop"
	Ret    *ssa.Return
	RetF   *Frame
	RetE   int
	vals   map[valKey][]bind
	tuples map[valKey][]tbind
	cells  map[string]Term
	ex     *Explorer
}

type bind struct {
	e int
	t Term
}

type tbind struct {
	e  int
	ts []Term
}

func getVal(m map[valKey][]bind, v ssa.Value, f *Frame, e int) (Term, bool) {
	bs := m[valKey{v, f}]
	for i := len(bs) - 1; i >= 0; i-- {
		if bs[i].e <= e {
			return bs[i].t, true
		}
	}
	return Term{}, false
}

func setVal(m map[valKey][]bind, v ssa.Value, f *Frame, e int, t Term) {
	k := valKey{v, f}
	m[k] = append(append([]bind(nil), m[k]...), bind{e, t})
}

func getTuple(m map[valKey][]tbind, v ssa.Value, f *Frame, e int) ([]Term, bool) {
	bs := m[valKey{v, f}]
	for i := len(bs) - 1; i >= 0; i-- {
		if bs[i].e <= e {
			return bs[i].ts, true
		}
	}
	return nil, false
}

func setTuple(m map[valKey][]tbind, v ssa.Value, f *Frame, e int, ts []Term) {
	k := valKey{v, f}
	m[k] = append(append([]tbind(nil), m[k]...), tbind{e, ts})
}

type valKey struct {
	v ssa.Value
	f *Frame
}

// Explorer holds the configuration of one exploration.
type Explorer struct {
	Root *ssa.Function
	// Follow decides whether a static callee is entered. Default: same package as Root, has a body, and is not an
	// exported package-level function (closures are always followed).
	Follow   func(callee *ssa.Function) bool
	MaxDepth int // helper nesting (default 4)
	MaxPaths int // safety valve (default 20000)
	// Stop ends a path when it reaches the block (in the root activation), before executing it.
	Stop func(b *ssa.BasicBlock) bool
	// LoopBound: how often one block may be entered on a path in one activation (default 1 for loop headers: the body is
	// walked once, then the loop is left).
	nframes  int
	npaths   int
	Overflow bool
	loops    map[*ssa.Function]map[*ssa.BasicBlock]map[*ssa.BasicBlock]bool // header → body
}

type state struct {
	frame  *Frame
	block  *ssa.BasicBlock
	prev   *ssa.BasicBlock
	idx    int
	conds  []Cond
	events []Event
	trace  []Visit
	vals   map[valKey][]bind
	tuples map[valKey][]tbind
	cells  map[string]Term
	visits map[valKeyB]int
	seq    int
	epoch  int
	// decided: the truth of the atoms the path has already branched on (a second test of the same values — the
	// caller re-testing the error a helper returned — is not a new choice)
	decided map[string]bool
}

type valKeyB struct {
	b *ssa.BasicBlock
	f *Frame
}

func (s *state) clone() *state {
	n := *s
	n.conds = append([]Cond(nil), s.conds...)
	n.events = append([]Event(nil), s.events...)
	n.trace = append([]Visit(nil), s.trace...)
	n.vals = make(map[valKey][]bind, len(s.vals))
	for k, v := range s.vals {
		n.vals[k] = v
	}
	n.tuples = make(map[valKey][]tbind, len(s.tuples))
	for k, v := range s.tuples {
		n.tuples[k] = v
	}
	n.cells = make(map[string]Term, len(s.cells))
	for k, v := range s.cells {
		n.cells[k] = v
	}
	n.visits = make(map[valKeyB]int, len(s.visits))
	for k, v := range s.visits {
		n.visits[k] = v
	}
	n.decided = make(map[string]bool, len(s.decided))
	for k, v := range s.decided {
		n.decided[k] = v
	}
	return &n
}

// Explore enumerates the paths of root from its entry.
func (ex *Explorer) Explore() []*Path {
	return ex.ExploreFrom(ex.Root.Blocks[0])
}

// ExploreFrom enumerates the paths of root starting at the given block of root.
func (ex *Explorer) ExploreFrom(start *ssa.BasicBlock) []*Path {
	if ex.MaxDepth == 0 {
		ex.MaxDepth = 4
	}
	if ex.MaxPaths == 0 {
		ex.MaxPaths = 20000
	}
	if ex.Follow == nil {
		ex.Follow = func(c *ssa.Function) bool {
			pk := c.Pkg
			if pk == nil && c.Origin() != nil {
				pk = c.Origin().Pkg // an instance of a generic helper of the package
			}
			return pk == ex.Root.Pkg && len(c.Blocks) > 0 && (c.Parent() != nil || !token.IsExported(c.Name()))
		}
	}
	ex.loops = map[*ssa.Function]map[*ssa.BasicBlock]map[*ssa.BasicBlock]bool{}
	root := &Frame{Fn: ex.Root, ID: 0}
	ex.nframes = 1
	st := &state{frame: root, block: start, vals: map[valKey][]bind{}, tuples: map[valKey][]tbind{}, cells: map[string]Term{}, visits: map[valKeyB]int{}, decided: map[string]bool{}}
	var out []*Path
	ex.run(st, &out)
	return out
}

func (ex *Explorer) finish(st *state, end string, ret *ssa.Return, out *[]*Path) {
	ex.npaths++
	*out = append(*out, &Path{Conds: st.conds, Events: st.events, Trace: st.trace, End: end, Ret: ret, RetF: st.frame, RetE: st.epoch, vals: st.vals, tuples: st.tuples, cells: st.cells, ex: ex})
}

// LoopBody: the blocks of the natural loop(s) headed by h (empty when h is not a loop header).
func (ex *Explorer) LoopBody(h *ssa.BasicBlock) map[*ssa.BasicBlock]bool { return ex.loopBody(h) }

func (ex *Explorer) loopBody(h *ssa.BasicBlock) map[*ssa.BasicBlock]bool {
	fn := h.Parent()
	if ex.loops[fn] == nil {
		ex.loops[fn] = map[*ssa.BasicBlock]map[*ssa.BasicBlock]bool{}
	}
	if b, ok := ex.loops[fn][h]; ok {
		return b
	}
	body := map[*ssa.BasicBlock]bool{}
	for _, t := range h.Preds {
		if !h.Dominates(t) {
			continue
		}
		// natural loop of the back edge t → h
		body[h] = true
		work := []*ssa.BasicBlock{t}
		for len(work) > 0 {
			b := work[len(work)-1]
			work = work[:len(work)-1]
			if body[b] {
				continue
			}
			body[b] = true
			work = append(work, b.Preds...)
		}
	}
	ex.loops[fn][h] = body
	return body
}

func (ex *Explorer) run(st *state, out *[]*Path) {
outer:
	for {
		if ex.npaths >= ex.MaxPaths {
			ex.Overflow = true
			return
		}
		b := st.block
		if st.idx == 0 {
			if st.frame.Parent == nil && ex.Stop != nil && ex.Stop(b) {
				ex.finish(st, "stop", nil, out)
				return
			}
			k := valKeyB{b, st.frame}
			st.visits[k]++
			st.trace = append(st.trace, Visit{b, st.frame, st.seq})
			st.seq++
			// join values: the input of the edge the path came in through. Coming round a loop starts a new epoch: what was
			// computed before keeps referring to the old values of the loop variables
			old := st.epoch
			if st.visits[k] > 1 {
				st.epoch++
			}
			for _, in := range b.Instrs {
				phi, ok := in.(*ssa.Phi)
				if !ok {
					break
				}
				for i, p := range b.Preds {
					if p == st.prev && i < len(phi.Edges) {
						setVal(st.vals, phi, st.frame, st.epoch, ex.resolve(st.vals, st.tuples, Term{phi.Edges[i], st.frame, old}))
					}
				}
			}
		}
		for ; st.idx < len(b.Instrs); st.idx++ {
			in := b.Instrs[st.idx]
			switch x := in.(type) {
			case *ssa.Phi, *ssa.DebugRef:
			case *ssa.UnOp:
				if x.Op == token.MUL {
					if v, ok := ex.loadCell(st, st.term(x.X), 0); ok {
						setVal(st.vals, x, st.frame, st.epoch, v)
					}
				}
			case *ssa.Field:
				// a field of a struct value that is a copy of a literal built on this path
				if v, ok := ex.fieldOfValue(st, st.term(x.X), x.Field, 0); ok {
					setVal(st.vals, x, st.frame, st.epoch, v)
				}
			case *ssa.Store:
				if key := ex.cellKey(st, st.term(x.Addr)); key != "" {
					st.cells[key] = ex.resolve(st.vals, st.tuples, st.term(x.Val))
				}
				st.events = append(st.events, Event{x, st.frame, len(st.conds), st.seq, st.epoch})
				st.seq++
			case *ssa.MapUpdate:
				st.events = append(st.events, Event{x, st.frame, len(st.conds), st.seq, st.epoch})
				st.seq++
			case *ssa.Call:
				if cands := ex.calleesOf(st, x); len(cands) > 0 && st.frame.depth < ex.MaxDepth {
					var usable []*calleeInfo
					for _, c := range cands {
						if !onStack(st.frame, c.fn) {
							usable = append(usable, c)
						}
					}
					if len(usable) == len(cands) {
						st.idx++ // resume after the call
						for i, callee := range usable {
							ns := st
							if i < len(usable)-1 {
								ns = st.clone()
							}
							nf := &Frame{Fn: callee.fn, Parent: ns.frame, Site: x, ID: ex.nframes, depth: ns.frame.depth + 1, args: map[*ssa.Parameter]Term{}, free: callee.free}
							ex.nframes++
							for i, prm := range callee.fn.Params {
								if i < len(x.Call.Args) {
									nf.args[prm] = ex.resolve(ns.vals, ns.tuples, ns.term(x.Call.Args[i]))
								}
							}
							ns.frameStackPush(nf, b, ns.idx)
							if i < len(usable)-1 {
								ex.run(ns, out)
							}
						}
						continue outer
					}
				}
				st.events = append(st.events, Event{x, st.frame, len(st.conds), st.seq, st.epoch})
				st.seq++
			case *ssa.Defer, *ssa.Go:
				st.events = append(st.events, Event{x, st.frame, len(st.conds), st.seq, st.epoch})
				st.seq++
			case *ssa.Panic:
				ex.finish(st, "panic", nil, out)
				return
			case *ssa.Return:
				if st.frame.Parent == nil {
					st.events = append(st.events, Event{x, st.frame, len(st.conds), st.seq, st.epoch})
					st.seq++
					ex.finish(st, "return", x, out)
					return
				}
				// hand the results to the caller and resume there
				res := make([]Term, len(x.Results))
				for i, rv := range x.Results {
					res[i] = ex.resolve(st.vals, st.tuples, st.term(rv))
				}
				callee := st.frame
				site := callee.Site.(*ssa.Call)
				if len(res) == 1 {
					setVal(st.vals, site, callee.Parent, st.epoch, res[0])
				} else {
					setTuple(st.tuples, site, callee.Parent, st.epoch, res)
				}
				st.frameStackPop()
				continue outer
			case *ssa.Jump:
				st.prev, st.block, st.idx = b, b.Succs[0], 0
				if !ex.enter(st, out) {
					return
				}
				continue outer
			case *ssa.If:
				val, known := ex.evalCond(st, st.term(x.Cond))
				ckey, cneg := ex.condKey(st, st.term(x.Cond), 0)
				if !known && ckey != "" {
					if d, ok := st.decided[ckey]; ok {
						val, known = d != cneg, true
					}
				}
				ways := []bool{true, false}
				if known {
					ways = []bool{val}
				}
				// a loop that was already walked once is left
				if hb := ex.loopBody(b); len(hb) > 0 && st.visits[valKeyB{b, st.frame}] > 1 {
					var outWays []bool
					for _, w := range ways {
						succ := b.Succs[0]
						if !w {
							succ = b.Succs[1]
						}
						if !hb[succ] {
							outWays = append(outWays, w)
						}
					}
					ways = outWays
					if len(ways) == 0 {
						ex.finish(st, "cut", nil, out)
						return
					}
				}
				for i, w := range ways {
					ns := st
					if i < len(ways)-1 {
						ns = st.clone()
					}
					succ := b.Succs[0]
					if !w {
						succ = b.Succs[1]
					}
					ns.conds = append(ns.conds, Cond{T: ex.resolve(ns.vals, ns.tuples, ns.term(x.Cond)), Branch: w, If: x})
					if ckey != "" {
						ns.decided[ckey] = w != cneg
					}
					ns.prev, ns.block, ns.idx = b, succ, 0
					if ex.enter(ns, out) {
						ex.run(ns, out)
					}
				}
				return
			}
		}
		// a block without a terminator that is handled above (should not happen)
		ex.finish(st, "cut", nil, out)
		return
	}
}

// enter applies the loop bound when a block is about to be entered; false ends the path.
func (ex *Explorer) enter(st *state, out *[]*Path) bool {
	k := valKeyB{st.block, st.frame}
	if st.visits[k] >= 2 {
		ex.finish(st, "cut", nil, out)
		return false
	}
	if st.visits[k] == 1 && len(ex.loopBody(st.block)) == 0 {
		// re-entering a block that is not a loop header: only possible inside an already walked loop
		ex.finish(st, "cut", nil, out)
		return false
	}
	return true
}

// continuation stack: where to resume in the caller
type cont struct {
	block *ssa.BasicBlock
	idx   int
	prev  *ssa.BasicBlock
}

var contOf = map[*Frame]cont{}

func (st *state) frameStackPush(nf *Frame, b *ssa.BasicBlock, idx int) {
	contOf[nf] = cont{b, idx, st.prev}
	st.frame = nf
	st.block, st.prev, st.idx = nf.Fn.Blocks[0], nil, 0
}

func (st *state) frameStackPop() {
	c := contOf[st.frame]
	st.frame = st.frame.Parent
	st.block, st.idx, st.prev = c.block, c.idx, c.prev
}

func onStack(f *Frame, fn *ssa.Function) bool {
	for ; f != nil; f = f.Parent {
		if f.Fn == fn {
			return true
		}
	}
	return false
}

type calleeInfo struct {
	fn   *ssa.Function
	free map[*ssa.FreeVar]Term
}

// calleesOf: the functions a call may enter — one for a static callee or a local closure, several for a dispatch
// through a package-level table that is filled by its initialiser and never written afterwards (the path forks).
// Empty when the call is not followed.
func (ex *Explorer) calleesOf(st *state, call *ssa.Call) []*calleeInfo {
	cc := call.Common()
	if cc.IsInvoke() {
		return nil
	}
	if _, isB := cc.Value.(*ssa.Builtin); isB {
		return nil
	}
	v := ex.resolve(st.vals, st.tuples, st.term(cc.Value))
	var one func(v Term, depth int) []*calleeInfo
	one = func(v Term, depth int) []*calleeInfo {
		switch x := v.V.(type) {
		case *ssa.Function:
			fn := x
			if len(fn.Blocks) == 1 && (strings.HasPrefix(fn.Synthetic, "thunk") || strings.HasPrefix(fn.Synthetic, "bound method wrapper") || strings.HasPrefix(fn.Synthetic, "wrapper for")) {
				// method expression or bound method wrapper: enter it, it forwards to the method
				return []*calleeInfo{{fn: fn}}
			}
			if ex.Follow(fn) {
				return []*calleeInfo{{fn: fn}}
			}
		case *ssa.MakeClosure:
			fn, ok := x.Fn.(*ssa.Function)
			if !ok || len(fn.Blocks) == 0 {
				return nil
			}
			free := map[*ssa.FreeVar]Term{}
			for i, fv := range fn.FreeVars {
				if i < len(x.Bindings) {
					free[fv] = ex.resolve(st.vals, st.tuples, v.Sub(x.Bindings[i]))
				}
			}
			return []*calleeInfo{{fn: fn, free: free}}
		case *ssa.Extract:
			if lk, ok := x.Tuple.(*ssa.Lookup); ok && x.Index == 0 && depth < 2 {
				return one(v.Sub(lk), depth+1)
			}
		case *ssa.Lookup:
			m := ex.resolve(st.vals, st.tuples, v.Sub(x.X))
			vals, ok := GlobalTableValues(m.V)
			if !ok || depth > 2 {
				return nil
			}
			var out []*calleeInfo
			for _, tv := range vals {
				// table values live in the package initialiser: constants there
				c := one(Term{V: tv, F: nil}, depth+1)
				if len(c) != 1 {
					return nil
				}
				out = append(out, c[0])
			}
			return out
		}
		return nil
	}
	return one(v, 0)
}

// loadCell: what the path last stored at an address — directly, or as a field of a struct value that was stored
// there as a whole (a value receiver spilled into a local, a struct copied from a literal).
func (ex *Explorer) loadCell(st *state, addr Term, depth int) (Term, bool) {
	if depth > 6 {
		return Term{}, false
	}
	if key := ex.cellKey(st, addr); key != "" {
		if v, ok := st.cells[key]; ok {
			return v, true
		}
	}
	a := ex.resolve(st.vals, st.tuples, addr)
	if fa, ok := a.V.(*ssa.FieldAddr); ok {
		// the struct the field belongs to was stored as a whole
		if whole, ok := ex.loadCell(st, a.Sub(fa.X), depth+1); ok {
			return ex.fieldOfValue(st, whole, fa.Field, depth+1)
		}
	}
	return Term{}, false
}

// fieldOfValue: field i of a struct value: the value is a load of a cell whose field was stored on the path.
func (ex *Explorer) fieldOfValue(st *state, val Term, field int, depth int) (Term, bool) {
	if depth > 6 {
		return Term{}, false
	}
	v := ex.resolve(st.vals, st.tuples, val)
	// the zero value of a struct type: its fields are zero
	if c, ok := v.V.(*ssa.Const); ok && c.Value == nil {
		if stt, ok := c.Type().Underlying().(*types.Struct); ok && field < stt.NumFields() {
			return Term{V: zeroConst(stt.Field(field).Type()), F: v.F, E: v.E}, true
		}
	}
	if ld, ok := v.V.(*ssa.UnOp); ok && ld.Op == token.MUL {
		if key := ex.cellKey(st, v.Sub(ld.X)); key != "" {
			if fv, ok := st.cells[fmt.Sprintf("%s.%d", key, field)]; ok {
				return fv, true
			}
			if whole, ok := st.cells[key]; ok {
				return ex.fieldOfValue(st, whole, field, depth+1)
			}
		}
	}
	return Term{}, false
}

func zeroConst(t types.Type) *ssa.Const {
	if b, ok := t.Underlying().(*types.Basic); ok {
		switch {
		case b.Info()&types.IsInteger != 0:
			return ssa.NewConst(constant.MakeInt64(0), t)
		case b.Info()&types.IsString != 0:
			return ssa.NewConst(constant.MakeString(""), t)
		case b.Info()&types.IsBoolean != 0:
			return ssa.NewConst(constant.MakeBool(false), t)
		}
	}
	return ssa.NewConst(nil, t)
}

// cellKey names the memory cell an address denotes, for the cells whose content is tracked along a path: local
// variables that live in memory (because a closure captures them or their address is taken) and fields reached
// through a named path. "" when the address is not tracked.
func (ex *Explorer) cellKey(st *state, addr Term) string {
	a := ex.resolve(st.vals, st.tuples, addr)
	switch x := a.V.(type) {
	case *ssa.Alloc:
		return fmt.Sprintf("alloc:%p:%d", x, a.F.ID)
	case *ssa.FreeVar:
		if b, ok := a.F.free[x]; ok {
			return ex.cellKey(st, b)
		}
	case *ssa.FieldAddr:
		base := ex.resolve(st.vals, st.tuples, a.Sub(x.X))
		bk := ""
		switch bx := base.V.(type) {
		case *ssa.Alloc:
			bk = fmt.Sprintf("alloc:%p:%d", bx, base.F.ID)
		case *ssa.UnOp:
			if bx.Op == token.MUL {
				bk = ex.cellKey(st, base.Sub(bx.X))
				if bk != "" {
					bk = "*" + bk
				}
			}
		case *ssa.Parameter:
			bk = fmt.Sprintf("param:%p:%d", bx, base.F.ID)
		case *ssa.FieldAddr:
			bk = ex.cellKey(st, base)
		}
		if bk == "" {
			return ""
		}
		return fmt.Sprintf("%s.%d", bk, x.Field)
	}
	return ""
}

// resolve traces a value back as far as the path determines it.
func (ex *Explorer) resolve(vals map[valKey][]bind, tuples map[valKey][]tbind, t Term) Term {
	for i := 0; i < 64; i++ {
		if t.V == nil || t.F == nil {
			return t
		}
		if r, ok := getVal(vals, t.V, t.F, t.E); ok && (r.V != t.V || r.F != t.F || r.E != t.E) {
			t = r
			continue
		}
		switch x := t.V.(type) {
		case *ssa.Parameter:
			if a, ok := t.F.args[x]; ok {
				t = a
				continue
			}
		case *ssa.Extract:
			base := ex.resolve(vals, tuples, t.Sub(x.Tuple))
			if res, ok := getTuple(tuples, base.V, base.F, base.E); ok && x.Index < len(res) {
				t = res[x.Index]
				continue
			}
			if base.V != x.Tuple || base.F != t.F {
				// the tuple itself was traced elsewhere (not expected); keep the extract
				return t
			}
		case *ssa.ChangeType:
			t = t.Sub(x.X)
			continue
		}
		return t
	}
	return t
}

func (st *state) term(v ssa.Value) Term { return Term{v, st.frame, st.epoch} }

// RetTerm is the i-th result of the return that ends the path.
func (p *Path) RetTerm(i int) Term { return Term{p.Ret.Results[i], p.RetF, p.RetE} }

// Resolve traces a value back on a finished path.
func (p *Path) Resolve(t Term) Term { return p.ex.resolve(p.vals, p.tuples, t) }

// Operand resolves the i-th operand of the instruction that computes t.
func (p *Path) Arg(call ssa.CallInstruction, at Term, i int) Term {
	return p.Resolve(at.Sub(call.Common().Args[i]))
}

// ---- constant decisions

func constOf(v ssa.Value) (constant.Value, bool) {
	c, ok := v.(*ssa.Const)
	if !ok {
		return nil, false
	}
	return c.Value, true // nil Value = nil / zero
}

// nonNil: the value cannot be nil.
func (ex *Explorer) nonNil(st *state, t Term, depth int) bool {
	if depth > 6 {
		return false
	}
	switch x := t.V.(type) {
	case *ssa.Alloc, *ssa.MakeInterface, *ssa.MakeClosure, *ssa.Function, *ssa.MakeMap, *ssa.MakeSlice, *ssa.MakeChan, *ssa.FieldAddr, *ssa.IndexAddr, *ssa.Global:
		return true
	case *ssa.Slice:
		_, ok := x.X.(*ssa.Alloc)
		return ok
	case *ssa.Call:
		return ex.appendsSomething(st, t, depth)
	case *ssa.ChangeInterface:
		return ex.nonNil(st, ex.resolve(st.vals, st.tuples, t.Sub(x.X)), depth+1)
	}
	return false
}

// appendsSomething: t is append(x, e…) with at least one element, or multierror.Append(x, e…) with at least one
// non-nil element: the result is not empty (and not nil).
func (ex *Explorer) appendsSomething(st *state, t Term, depth int) bool {
	call, ok := t.V.(*ssa.Call)
	if !ok {
		return false
	}
	cc := call.Common()
	isAppend := false
	if b, isB := cc.Value.(*ssa.Builtin); isB && b.Name() == "append" && len(cc.Args) == 2 {
		isAppend = true
	}
	if c := cc.StaticCallee(); c != nil && c.Name() == "Append" && c.Pkg != nil && strings.Contains(c.Pkg.Pkg.Path(), "go-multierror") && len(cc.Args) == 2 {
		isAppend = true
	}
	if !isAppend {
		return false
	}
	sl, ok := cc.Args[1].(*ssa.Slice)
	if !ok {
		return false
	}
	al, ok := sl.X.(*ssa.Alloc)
	if !ok {
		return false
	}
	arr, ok := al.Type().Underlying().(*types.Pointer).Elem().Underlying().(*types.Array)
	return ok && arr.Len() > 0
}

// nonEmptyString: the string cannot be "".
func (ex *Explorer) nonEmptyString(st *state, t Term, depth int) bool {
	if depth > 8 {
		return false
	}
	t = ex.resolve(st.vals, st.tuples, t)
	switch x := t.V.(type) {
	case *ssa.Const:
		return x.Value != nil && x.Value.Kind() == constant.String && constant.StringVal(x.Value) != ""
	case *ssa.BinOp:
		if x.Op == token.ADD {
			return ex.nonEmptyString(st, t.Sub(x.X), depth+1) || ex.nonEmptyString(st, t.Sub(x.Y), depth+1)
		}
	case *ssa.Call:
		if c := x.Common().StaticCallee(); c != nil && c.Pkg != nil && c.Pkg.Pkg.Path() == "fmt" && (c.Name() == "Sprintf" || c.Name() == "Errorf") && len(x.Common().Args) > 0 {
			if f, ok := x.Common().Args[0].(*ssa.Const); ok && f.Value != nil && f.Value.Kind() == constant.String {
				// any character of the format outside a verb makes the result non-empty
				s := constant.StringVal(f.Value)
				for i := 0; i < len(s); i++ {
					if s[i] == '%' {
						i++
						for i < len(s) && strings.IndexByte("+-# 0123456789.[]*", s[i]) >= 0 {
							i++
						}
						continue
					}
					return true
				}
			}
		}
	}
	return false
}

// condKey identifies the atom a condition tests by the identity of the values involved ("" when it has none that is
// stable); neg tells that the condition is the negation of the atom.
func (ex *Explorer) condKey(st *state, t Term, depth int) (string, bool) {
	if depth > 4 {
		return "", false
	}
	t = ex.resolve(st.vals, st.tuples, t)
	id := func(x Term) string {
		x = ex.resolve(st.vals, st.tuples, x)
		if c, ok := x.V.(*ssa.Const); ok {
			if c.Value == nil {
				return "const:nil"
			}
			return "const:" + c.Value.ExactString()
		}
		if x.F == nil {
			return fmt.Sprintf("%p", x.V)
		}
		return fmt.Sprintf("%p:%d:%d", x.V, x.F.ID, x.E)
	}
	switch x := t.V.(type) {
	case *ssa.UnOp:
		if x.Op == token.NOT {
			k, n := ex.condKey(st, t.Sub(x.X), depth+1)
			return k, !n
		}
	case *ssa.BinOp:
		l, r := id(t.Sub(x.X)), id(t.Sub(x.Y))
		switch x.Op {
		case token.EQL, token.NEQ:
			if r < l {
				l, r = r, l
			}
			return "==|" + l + "|" + r, x.Op == token.NEQ
		case token.LSS, token.GEQ:
			return "<|" + l + "|" + r, x.Op == token.GEQ
		case token.GTR, token.LEQ:
			return ">|" + l + "|" + r, x.Op == token.LEQ
		}
		return "", false
	case *ssa.Const:
		return "", false
	}
	return id(t), false
}

func (ex *Explorer) evalCond(st *state, t Term) (bool, bool) {
	return ex.evalCondD(st, t, 0)
}

func (ex *Explorer) evalCondD(st *state, t Term, depth int) (bool, bool) {
	if depth > 8 {
		return false, false
	}
	t = ex.resolve(st.vals, st.tuples, t)
	switch x := t.V.(type) {
	case *ssa.Const:
		if x.Value != nil && x.Value.Kind() == constant.Bool {
			return constant.BoolVal(x.Value), true
		}
	case *ssa.UnOp:
		if x.Op == token.NOT {
			v, k := ex.evalCondD(st, t.Sub(x.X), depth+1)
			return !v, k
		}
	case *ssa.BinOp:
		l := ex.resolve(st.vals, st.tuples, t.Sub(x.X))
		r := ex.resolve(st.vals, st.tuples, t.Sub(x.Y))
		switch x.Op {
		case token.EQL, token.NEQ:
			eq, known := ex.equal(st, l, r)
			if known {
				return eq == (x.Op == token.EQL), true
			}
		case token.GTR, token.GEQ, token.LSS, token.LEQ:
			// len(x) against a constant, x known to be non-empty (or known to be the empty literal)
			if n, ok := ex.lenFact(st, l); ok {
				if c, isC := constOf(r.V); isC && c != nil && c.Kind() == constant.Int {
					k, _ := constant.Int64Val(c)
					return cmpLen(n, k, x.Op)
				}
			}
		}
	}
	return false, false
}

// lenFact: t is len(y): 0 when y is known empty, 1 (standing for "at least one") when known non-empty.
func (ex *Explorer) lenFact(st *state, t Term) (int, bool) {
	call, ok := t.V.(*ssa.Call)
	if !ok {
		return 0, false
	}
	b, isB := call.Common().Value.(*ssa.Builtin)
	if !isB || b.Name() != "len" {
		return 0, false
	}
	y := ex.resolve(st.vals, st.tuples, t.Sub(call.Common().Args[0]))
	if ex.appendsSomething(st, y, 0) {
		return 1, true
	}
	// the Errors field of a multierror accumulator something was appended to
	if ld, ok := y.V.(*ssa.UnOp); ok && ld.Op == token.MUL {
		if fa, ok := ld.X.(*ssa.FieldAddr); ok {
			base := ex.resolve(st.vals, st.tuples, y.Sub(fa.X))
			if ex.appendsSomething(st, base, 0) && strings.Contains(base.V.Type().String(), "multierror") {
				return 1, true
			}
		}
	}
	return 0, false
}

func cmpLen(n int, k int64, op token.Token) (bool, bool) {
	// n == 1 means "≥ 1"
	if n == 0 {
		switch op {
		case token.GTR:
			return 0 > k, true
		case token.GEQ:
			return 0 >= k, true
		case token.LSS:
			return 0 < k, true
		case token.LEQ:
			return 0 <= k, true
		}
		return false, false
	}
	switch op {
	case token.GTR:
		if k <= 0 {
			return true, true
		}
	case token.GEQ:
		if k <= 1 {
			return true, true
		}
	case token.LSS:
		if k <= 1 {
			return false, true
		}
	case token.LEQ:
		if k <= 0 {
			return false, true
		}
	}
	return false, false
}

// equal decides l == r when both are determined on the path.
func (ex *Explorer) equal(st *state, l, r Term) (bool, bool) {
	lc, lok := constOf(l.V)
	rc, rok := constOf(r.V)
	if lok && rok {
		if lc == nil || rc == nil {
			return lc == nil && rc == nil, true
		}
		if lc.Kind() == rc.Kind() {
			return constant.Compare(lc, token.EQL, rc), true
		}
		return false, false
	}
	if rok {
		l, r, lc, rc, lok, rok = r, l, rc, lc, rok, lok
	}
	_ = rc
	if !lok {
		return false, false
	}
	// l is a constant, r is not
	switch {
	case lc == nil:
		// nil (or the zero value of a non-constant type)
		if c, isC := l.V.(*ssa.Const); isC && c.IsNil() {
			if ex.nonNil(st, r, 0) {
				return false, true
			}
		}
	case lc.Kind() == constant.String && constant.StringVal(lc) == "":
		if ex.nonEmptyString(st, r, 0) {
			return false, true
		}
	case lc.Kind() == constant.Int:
		if n, ok := ex.lenFact(st, r); ok {
			k, _ := constant.Int64Val(lc)
			if n == 0 {
				return k == 0, true
			}
			if k <= 0 {
				return false, true
			}
		}
	}
	return false, false
}
