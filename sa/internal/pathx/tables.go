package pathx

import (
	"go/token"
	"go/types"

	"golang.org/x/tools/go/ssa"
)

// GlobalTableValues: m is a load of an unexported package-level map or slice variable whose only store is the
// composite literal of its initialiser and which is never updated afterwards; returns the literal's values.
func GlobalTableValues(m ssa.Value) ([]ssa.Value, bool) {
	ld, ok := m.(*ssa.UnOp)
	if !ok || ld.Op != token.MUL {
		return nil, false
	}
	g, ok := ld.X.(*ssa.Global)
	if !ok || g.Pkg == nil || g.Object() == nil || g.Object().Exported() {
		return nil, false
	}
	init := g.Pkg.Func("init")
	if init == nil {
		return nil, false
	}
	var all []*ssa.Function
	var addFn func(f *ssa.Function)
	addFn = func(f *ssa.Function) {
		all = append(all, f)
		for _, an := range f.AnonFuncs {
			addFn(an)
		}
	}
	for _, mem := range g.Pkg.Members {
		if x, ok := mem.(*ssa.Function); ok {
			addFn(x)
		}
	}
	// methods of the package's named types
	for _, mem := range g.Pkg.Members {
		if t, ok := mem.(*ssa.Type); ok {
			for _, recv := range methodSets(g.Pkg.Prog, t) {
				addFn(recv)
			}
		}
	}
	var initVal ssa.Value
	for _, f := range all {
		for _, b := range f.Blocks {
			for _, in := range b.Instrs {
				for _, op := range in.Operands(nil) {
					if *op != ssa.Value(g) {
						continue
					}
					switch x := in.(type) {
					case *ssa.Store:
						if x.Addr != ssa.Value(g) || f != init || initVal != nil {
							return nil, false
						}
						initVal = x.Val
					case *ssa.UnOp:
						if x.Op != token.MUL {
							return nil, false
						}
						if refs := x.Referrers(); refs != nil {
							for _, ref := range *refs {
								switch r := ref.(type) {
								case *ssa.Lookup, *ssa.Range, *ssa.DebugRef:
								case *ssa.IndexAddr:
									if r.Referrers() != nil {
										for _, rr := range *r.Referrers() {
											if l2, ok := rr.(*ssa.UnOp); !ok || l2.Op != token.MUL {
												return nil, false
											}
										}
									}
								case *ssa.Call:
									if bi, ok := r.Common().Value.(*ssa.Builtin); !ok || bi.Name() != "len" {
										return nil, false
									}
								default:
									return nil, false
								}
							}
						}
					case *ssa.DebugRef:
					default:
						return nil, false
					}
				}
			}
		}
	}
	var vals []ssa.Value
	switch iv := initVal.(type) {
	case *ssa.MakeMap:
		if iv.Referrers() == nil {
			return nil, false
		}
		for _, ref := range *iv.Referrers() {
			switch r := ref.(type) {
			case *ssa.MapUpdate:
				vals = append(vals, r.Value)
			case *ssa.Store, *ssa.DebugRef:
			default:
				return nil, false
			}
		}
	case *ssa.Slice:
		al, ok := iv.X.(*ssa.Alloc)
		if !ok || al.Referrers() == nil {
			return nil, false
		}
		for _, ref := range *al.Referrers() {
			switch r := ref.(type) {
			case *ssa.IndexAddr:
				if r.Referrers() == nil {
					continue
				}
				for _, rr := range *r.Referrers() {
					st, ok := rr.(*ssa.Store)
					if !ok || st.Addr != ssa.Value(r) {
						return nil, false
					}
					vals = append(vals, st.Val)
				}
			case *ssa.Slice, *ssa.DebugRef:
			default:
				return nil, false
			}
		}
	default:
		return nil, false
	}
	return vals, len(vals) > 0
}

func methodSets(prog *ssa.Program, t *ssa.Type) []*ssa.Function {
	var out []*ssa.Function
	nt := t.Type()
	for _, recv := range []bool{false, true} {
		var ms = prog.MethodSets.MethodSet(nt)
		if recv {
			ms = prog.MethodSets.MethodSet(typesPointer(nt))
		}
		for i := 0; i < ms.Len(); i++ {
			if f := prog.MethodValue(ms.At(i)); f != nil && f.Pkg == t.Package() {
				out = append(out, f)
			}
		}
	}
	return out
}

func typesPointer(t types.Type) types.Type { return types.NewPointer(t) }
