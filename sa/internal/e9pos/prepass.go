package e9pos

import (
	"os"
	"fmt"
	"go/constant"
	"go/token"
	"go/types"
	"sort"
	"strings"

	"golang.org/x/tools/go/ssa"

	"verif/sa/internal/e5path"
	"verif/sa/internal/load"
	"verif/sa/internal/oblig"
)

// The pre-pass rule (R9.1) on SSA. It follows values through unexported helpers (a parameter with one
// call site is its argument, a helper call is what the helper returns), so it does not matter whether the
// cleaning of a line, the whole comment pass or the construction of the lexer live in ParseDSL itself.

type ppCtx struct {
	p     *load.Prog
	funcs []*ssa.Function // functions of the transformer package
	sites map[*ssa.Function][]ssa.CallInstruction
	line  map[ssa.Value]bool // loads of the current line inside the cleaning loop
}

func (c *ppCtx) callSites(f *ssa.Function) []ssa.CallInstruction {
	if c.sites == nil {
		c.sites = map[*ssa.Function][]ssa.CallInstruction{}
		for _, g := range c.funcs {
			for _, b := range g.Blocks {
				for _, in := range b.Instrs {
					if ci, ok := in.(ssa.CallInstruction); ok {
						if callee := ci.Common().StaticCallee(); callee != nil {
							c.sites[callee] = append(c.sites[callee], ci)
						}
					}
				}
			}
		}
	}
	return c.sites[f]
}

// res follows a value backwards through single-call-site parameters, single-return helpers and conversions.
func (c *ppCtx) res(v ssa.Value) ssa.Value {
	for i := 0; i < 8; i++ {
		switch x := v.(type) {
		case *ssa.Parameter:
			f := x.Parent()
			sites := c.callSites(f)
			if len(sites) != 1 {
				return v
			}
			idx := -1
			for k, q := range f.Params {
				if q == x {
					idx = k
				}
			}
			if idx < 0 || idx >= len(sites[0].Common().Args) {
				return v
			}
			v = sites[0].Common().Args[idx]
			continue
		case *ssa.Call:
			callee := x.Common().StaticCallee()
			if callee == nil || !load.InRepo(callee) || len(callee.Blocks) == 0 {
				return v
			}
			var rets []*ssa.Return
			for _, b := range callee.Blocks {
				if r, ok := b.Instrs[len(b.Instrs)-1].(*ssa.Return); ok {
					rets = append(rets, r)
				}
			}
			if len(rets) != 1 || len(rets[0].Results) != 1 {
				return v
			}
			v = rets[0].Results[0]
			continue
		case *ssa.ChangeType:
			v = x.X
			continue
		}
		return v
	}
	return v
}

func stdCall(v ssa.Value, pkg, name string) *ssa.Call {
	c, ok := v.(*ssa.Call)
	if !ok {
		return nil
	}
	callee := c.Common().StaticCallee()
	if callee == nil || callee.Pkg == nil || callee.Pkg.Pkg.Path() != pkg || callee.Name() != name {
		return nil
	}
	return c
}

func constStr(v ssa.Value) (string, bool) {
	c, ok := v.(*ssa.Const)
	if !ok || c.Value == nil || c.Value.Kind() != constant.String {
		return "", false
	}
	return constant.StringVal(c.Value), true
}

// canon renders a value over the current line ("LINE"), resolving helper parameters.
func (c *ppCtx) canon(v ssa.Value, depth int) string {
	if depth > 10 {
		return "?"
	}
	v = c.res(v)
	if c.line[v] {
		return "LINE"
	}
	switch x := v.(type) {
	case *ssa.Const:
		if x.Value == nil {
			return "nil"
		}
		return x.Value.ExactString()
	case *ssa.Call:
		if b, ok := x.Common().Value.(*ssa.Builtin); ok {
			var as []string
			for _, a := range x.Common().Args {
				as = append(as, c.canon(a, depth+1))
			}
			return b.Name() + "(" + strings.Join(as, ", ") + ")"
		}
		if callee := x.Common().StaticCallee(); callee != nil && callee.Pkg != nil {
			var as []string
			for _, a := range x.Common().Args {
				as = append(as, c.canon(a, depth+1))
			}
			return callee.Pkg.Pkg.Name() + "." + callee.Name() + "(" + strings.Join(as, ", ") + ")"
		}
	case *ssa.Slice:
		lo, hi := "", ""
		if x.Low != nil {
			lo = c.canon(x.Low, depth+1)
			if lo == "0" {
				lo = ""
			}
		}
		if x.High != nil {
			hi = c.canon(x.High, depth+1)
		}
		return c.canon(x.X, depth+1) + "[" + lo + ":" + hi + "]"
	case *ssa.Lookup:
		return c.canon(x.X, depth+1) + "[" + c.canon(x.Index, depth+1) + "]"
	case *ssa.Index:
		return c.canon(x.X, depth+1) + "[" + c.canon(x.Index, depth+1) + "]"
	case *ssa.BinOp:
		return c.canon(x.X, depth+1) + " " + x.Op.String() + " " + c.canon(x.Y, depth+1)
	case *ssa.UnOp:
		if x.Op == token.NOT {
			return "!" + c.canon(x.X, depth+1)
		}
		if x.Op == token.MUL {
			if ia, ok := x.X.(*ssa.IndexAddr); ok {
				return c.canon(ia.X, depth+1) + "[" + c.canon(ia.Index, depth+1) + "]"
			}
		}
	case *ssa.Convert:
		return c.canon(x.X, depth+1)
	case *ssa.Extract:
		return c.canon(x.Tuple, depth+1) + "#" + fmt.Sprint(x.Index)
	}
	if os.Getenv("VERIF_PP_DEBUG") != "" {
		fmt.Fprintf(os.Stderr, "PP canon: unhandled %T %s\n", v, v)
	}
	return "?" + v.Name()
}

type ppAlt struct {
	v     ssa.Value
	conds []string // canonical conditions that hold ("C" or "!(C)")
}

func (c *ppCtx) condsOf(b *ssa.BasicBlock) []string {
	var out []string
	for _, ce := range e5path.DominatingConds(b) {
		s := c.canon(ce.Cond, 0)
		if !ce.Branch {
			s = "!(" + s + ")"
		}
		out = append(out, s)
	}
	return out
}

// alternatives: the values v can take with the conditions under which each is chosen (phis and multi-return helpers).
func (c *ppCtx) alternatives(v ssa.Value, depth int) []ppAlt {
	if depth > 6 {
		return []ppAlt{{v: v}}
	}
	v = c.res(v)
	switch x := v.(type) {
	case *ssa.Phi:
		var out []ppAlt
		for i, e := range x.Edges {
			pred := x.Block().Preds[i]
			conds := c.condsOf(pred)
			if ifi, ok := pred.Instrs[len(pred.Instrs)-1].(*ssa.If); ok {
				s := c.canon(ifi.Cond, 0)
				if pred.Succs[1] == x.Block() {
					s = "!(" + s + ")"
				}
				conds = append(conds, s)
			}
			for _, a := range c.alternatives(e, depth+1) {
				out = append(out, ppAlt{a.v, append(append([]string{}, conds...), a.conds...)})
			}
		}
		return out
	case *ssa.Call:
		callee := x.Common().StaticCallee()
		if callee != nil && load.InRepo(callee) && len(callee.Blocks) > 0 {
			var out []ppAlt
			for _, b := range callee.Blocks {
				if r, ok := b.Instrs[len(b.Instrs)-1].(*ssa.Return); ok && len(r.Results) == 1 {
					conds := c.condsOf(b)
					for _, a := range c.alternatives(r.Results[0], depth+1) {
						out = append(out, ppAlt{a.v, append(append([]string{}, conds...), a.conds...)})
					}
				}
			}
			if len(out) > 0 {
				return out
			}
		}
	}
	return []ppAlt{{v: v}}
}

// prefixExpr: v is derived from the current line by prefix-preserving operations only. Returns the cut set of
// an outermost TrimRight ("" when there is none) and records the comment separator.
func (c *ppCtx) prefixExpr(v ssa.Value, pp *PrePass, depth int) (bool, string, string) {
	if depth > 8 {
		return false, "", "expression too deep"
	}
	v = c.res(v)
	if c.line[v] {
		return true, "", ""
	}
	if call := stdCall(v, "strings", "TrimRight"); call != nil {
		cs, ok := constStr(call.Common().Args[1])
		if !ok {
			return false, "", "TrimRight with a non-constant cut set"
		}
		ok2, _, why := c.prefixExpr(call.Common().Args[0], pp, depth+1)
		return ok2, cs, why
	}
	if call := stdCall(v, "strings", "TrimSuffix"); call != nil {
		ok, _, why := c.prefixExpr(call.Common().Args[0], pp, depth+1)
		return ok, "", why
	}
	// strings.Split(x, sep)[0]
	if ld, ok := v.(*ssa.UnOp); ok && ld.Op == token.MUL {
		if ia, ok := ld.X.(*ssa.IndexAddr); ok {
			if ic, ok := ia.Index.(*ssa.Const); ok && ic.Int64() == 0 {
				for _, name := range []string{"Split", "SplitN"} {
					if call := stdCall(c.res(ia.X), "strings", name); call != nil {
						sep, ok := constStr(call.Common().Args[1])
						if !ok {
							return false, "", "Split with a non-constant separator"
						}
						pp.CommentCut = sep
						ok2, _, why := c.prefixExpr(call.Common().Args[0], pp, depth+1)
						return ok2, "", why
					}
				}
			}
		}
	}
	// before, _, _ := strings.Cut(x, sep)
	if ex, ok := v.(*ssa.Extract); ok && ex.Index == 0 {
		if call := stdCall(ex.Tuple, "strings", "Cut"); call != nil {
			if sep, ok := constStr(call.Common().Args[1]); ok {
				pp.CommentCut = sep
				ok2, _, why := c.prefixExpr(call.Common().Args[0], pp, depth+1)
				return ok2, "", why
			}
		}
	}
	// x[:strings.Index(x, sep)]
	if sl, ok := v.(*ssa.Slice); ok {
		if sl.Low != nil {
			if lc, ok := sl.Low.(*ssa.Const); !ok || lc.Int64() != 0 {
				return false, "", "slice with a non-zero lower bound drops leading text (columns shift)"
			}
		}
		if call := stdCall(c.res(sl.High), "strings", "Index"); call != nil && c.canon(call.Common().Args[0], 0) == c.canon(sl.X, 0) {
			if sep, ok := constStr(call.Common().Args[1]); ok {
				pp.CommentCut = sep
			}
			ok2, _, why := c.prefixExpr(sl.X, pp, depth+1)
			return ok2, "", why
		}
		return false, "", "slice with an upper bound that is not strings.Index(x, sep) of the same text"
	}
	return false, "", "the expression " + c.canon(v, 0) + " is not prefix-preserving (only TrimRight, TrimSuffix, Split(…)[0], Cut, x[:Index(x, sep)] keep cleaned line i a prefix of input line i)"
}

func dominatedBy(hdr, b *ssa.BasicBlock) bool {
	for x := b; x != nil; x = x.Idom() {
		if x == hdr {
			return true
		}
	}
	return false
}

// PrePassShape (R9.1): the text handed to the lexer is Join(clean(line_i), "\n") over the lines of the
// input split at "\n" (one out per line in), clean(line) is "" or a prefix of the line whose last
// operation trims trailing blanks, a line is blanked when its first non-space byte is '#', and an
// inline comment is cut at the first " #".
func PrePassShape(p *load.Prog, r *oblig.Report, rule string) *PrePass {
	entry := p.Func("transformer", "ParseDSL")
	if entry == nil {
		r.Unknown(rule, "anchor:ParseDSL", "-", "ParseDSL not found")
		return nil
	}
	c := &ppCtx{p: p, line: map[ssa.Value]bool{}}
	// ParseDSL and the functions of its package it reaches through static calls
	seen := map[*ssa.Function]bool{entry: true}
	work := []*ssa.Function{entry}
	for len(work) > 0 {
		f := work[0]
		work = work[1:]
		c.funcs = append(c.funcs, f)
		for _, b := range f.Blocks {
			for _, in := range b.Instrs {
				if ci, ok := in.(ssa.CallInstruction); ok {
					if callee := ci.Common().StaticCallee(); callee != nil && callee.Pkg == entry.Pkg && !seen[callee] && len(callee.Blocks) > 0 {
						seen[callee] = true
						work = append(work, callee)
					}
				}
			}
		}
	}
	pp := &PrePass{}
	pos := func(in interface{ Pos() token.Pos }) string { return p.Pos(in.Pos()) }
	// (5) the lexer input
	var input *ssa.Call
	for _, f := range c.funcs {
		for _, b := range f.Blocks {
			for _, in := range b.Instrs {
				if call, ok := in.(*ssa.Call); ok {
					if callee := call.Common().StaticCallee(); callee != nil && callee.Name() == "NewInputStream" && callee.Pkg != nil && strings.HasSuffix(callee.Pkg.Pkg.Path(), "antlr/v4") {
						input = call
					}
				}
			}
		}
	}
	if input == nil {
		r.Unknown(rule, "prepass:join", pos(entry), "no antlr.NewInputStream call reachable from ParseDSL")
		return nil
	}
	arg := c.res(input.Common().Args[0])
	why := ""
	for {
		if call := stdCall(arg, "strings", "TrimRight"); call != nil {
			cs, _ := constStr(call.Common().Args[1])
			if cs != "\n" {
				why = fmt.Sprintf("TrimRight with cut set %q after joining", cs)
				break
			}
			pp.FinalTrimSet = cs
			arg = c.res(call.Common().Args[0])
			continue
		}
		break
	}
	var list ssa.Value
	implicitBlank := false
	var storeBlock *ssa.BasicBlock
	var hdr *ssa.BasicBlock
	var cleaned ssa.Value
	var back interface{ Pos() token.Pos }
	var altsOverride []ppAlt
	var multiStores []*ssa.Store
	// the text assembled in a strings.Builder: one WriteString(cleaned line) per input line, lines separated by "\n"
	if why == "" {
		if bcall, ok := arg.(*ssa.Call); ok {
			if callee := bcall.Common().StaticCallee(); callee != nil && callee.Name() == "String" && callee.Pkg != nil && callee.Pkg.Pkg.Path() == "strings" && len(bcall.Common().Args) == 1 {
				lineWrite, conditional, bwhy := c.builderShape(bcall.Common().Args[0])
				if bwhy != "" {
					r.Bad(rule, "prepass:join", pos(input), "the lexer input is assembled in a strings.Builder, but "+bwhy+": line numbers of the cleaned text would not be those of the input")
					return pp
				}
				r.OK(rule, "prepass:join", pos(input), "ssa", "NewInputStream(TrimRight(<builder: cleaned lines separated by \"\\n\">, \"\\n\"))")
				cleaned, back = lineWrite.Common().Args[1], lineWrite
				hdr = loopHeaderOfBlock(lineWrite.Block())
				if conditional {
					implicitBlank, storeBlock = true, lineWrite.Block()
				}
				r.OK(rule, "prepass:one-line-out-per-line-in", pos(lineWrite), "ssa", "exactly one cleaned line and one separator are written on every path through the loop body; the loop is left only when the lines are exhausted")
			}
		}
	}
	if why == "" && cleaned == nil {
		if call := stdCall(arg, "strings", "Join"); call != nil {
			if js, _ := constStr(call.Common().Args[1]); js == "\n" {
				list = c.res(call.Common().Args[0])
			} else {
				why = "the cleaned lines are not joined with \"\\n\""
			}
		} else {
			why = "the lexer input is " + c.canon(arg, 0) + ": only strings.TrimRight(strings.Join(lines, \"\\n\"), \"\\n\") keeps every line at its original line number"
		}
	}
	if list == nil && cleaned == nil {
		r.Bad(rule, "prepass:join", pos(input), why)
		return pp
	}
	if cleaned == nil {
		r.OK(rule, "prepass:join", pos(input), "ssa", "NewInputStream(TrimRight(Join(cleanedLines, \"\\n\"), \"\\n\"))")
	}
	// (3) the list is built line by line: either appended to in a loop — the header phi [fresh list, append(phi, one
	// element)] — or allocated with one slot per line (make([]string, len(lines)), or the split result itself) and
	// filled in place at the loop index
	if cleaned != nil {
		// builder form: decided above
	} else if phi, ok := list.(*ssa.Phi); ok && len(phi.Edges) == 2 {
		hdr = phi.Block()
		var app *ssa.Call
		for _, e := range phi.Edges {
			if call, ok := e.(*ssa.Call); ok {
				if b, isB := call.Common().Value.(*ssa.Builtin); isB && b.Name() == "append" && call.Common().Args[0] == ssa.Value(phi) {
					app = call
				}
			}
		}
		exits := !loopLeftOnlyFromHeader(hdr)
		if app == nil || exits {
			r.Bad(rule, "prepass:one-line-out-per-line-in", p.Pos(phi.Pos()), fmt.Sprintf("the loop does not append exactly one cleaned line per input line on every path (unconditional append: %v, early exits: %v): line numbers shift", app != nil, exits))
			return pp
		}
		if sl, ok := app.Common().Args[1].(*ssa.Slice); ok {
			if al, ok := sl.X.(*ssa.Alloc); ok && al.Referrers() != nil {
				n := 0
				for _, ref := range *al.Referrers() {
					if ia, ok := ref.(*ssa.IndexAddr); ok && ia.Referrers() != nil {
						for _, r2 := range *ia.Referrers() {
							if st, ok := r2.(*ssa.Store); ok {
								cleaned = st.Val
								n++
							}
						}
					}
				}
				if n != 1 {
					cleaned = nil
				}
			}
		}
		if cleaned == nil {
			r.Bad(rule, "prepass:one-line-out-per-line-in", pos(app), "the append adds something other than exactly one cleaned line")
			return pp
		}
		back = app
		r.OK(rule, "prepass:one-line-out-per-line-in", pos(app), "ssa", "the list is extended by exactly one element on every path through the loop body; the loop is left only when the lines are exhausted")
	} else {
		// in place: every store into the list happens at the loop index of one complete loop, unconditionally
		var stores []*ssa.Store
		for _, f := range c.funcs {
			for _, b := range f.Blocks {
				for _, in := range b.Instrs {
					if st, ok := in.(*ssa.Store); ok {
						if ia, ok := st.Addr.(*ssa.IndexAddr); ok && c.res(ia.X) == list {
							stores = append(stores, st)
						}
					}
				}
			}
		}
		if len(stores) > 1 {
			// one store per alternative (a switch that writes the slot in every case): accepted when all stores use the
			// same loop index and every path through the loop body passes through exactly one of them
			if h, ok := exactlyOneStorePerIteration(stores); ok {
				hdr = h
				sized := stdCall(list, "strings", "Split") != nil
				if mk, isMk := list.(*ssa.MakeSlice); isMk {
					if lc, isCall := mk.Len.(*ssa.Call); isCall {
						if bi, isB := lc.Common().Value.(*ssa.Builtin); isB && bi.Name() == "len" && stdCall(c.res(lc.Common().Args[0]), "strings", "Split") != nil {
							sized = true
						}
					}
				}
				if !sized || !loopLeftOnlyFromHeader(hdr) {
					r.Bad(rule, "prepass:one-line-out-per-line-in", pos(stores[0]), "the cleaned lines are written in place, but the list does not have one slot per input line or the loop can be left early: line numbers shift")
					return pp
				}
				multiStores = stores
				cleaned, back = stores[0].Val, stores[0]
				r.OK(rule, "prepass:one-line-out-per-line-in", pos(stores[0]), "ssa", fmt.Sprintf("one slot per input line, filled at the loop index by exactly one of %d stores on every path; the loop is left only when the lines are exhausted", len(stores)))
			}
		}
		if len(stores) != 1 && multiStores == nil {
			r.Unknown(rule, "prepass:line-loop", pos(input), fmt.Sprintf("the joined list is not built in a loop (it is %s, written at %d places)", c.canon(list, 0), len(stores)))
			return pp
		}
		st := stores[0]
		if multiStores == nil {
		idx := st.Addr.(*ssa.IndexAddr).Index
		if bo, ok := idx.(*ssa.BinOp); ok && bo.Op == token.ADD {
			idx = bo.X
		}
		ph, ok := idx.(*ssa.Phi)
		if !ok {
			r.Unknown(rule, "prepass:line-loop", pos(st), "the list is written at an index that is not a loop index")
			return pp
		}
		hdr = ph.Block()
		// unconditional: the store's block dominates every in-loop predecessor of the header
		uncond := loopLeftOnlyFromHeader(hdr)
		for _, pred := range hdr.Preds {
			if dominatedBy(hdr, pred) && pred != hdr.Preds[0] && !dominatedBy(st.Block(), pred) {
				uncond = false
			}
		}
		// one slot per line: the list is the split result itself or make([]string, len(lines))
		sized := stdCall(list, "strings", "Split") != nil
		if mk, isMk := list.(*ssa.MakeSlice); isMk {
			if lc, isCall := mk.Len.(*ssa.Call); isCall {
				if bi, isB := lc.Common().Value.(*ssa.Builtin); isB && bi.Name() == "len" && stdCall(c.res(lc.Common().Args[0]), "strings", "Split") != nil {
					sized = true
					// a fresh list with one empty slot per line: a line that is skipped (blank, comment) stays ""
					if loopLeftOnlyFromHeader(hdr) && !uncond {
						uncond = true
						implicitBlank, storeBlock = true, st.Block()
					}
				}
			}
		}
		if !uncond || !sized {
			r.Bad(rule, "prepass:one-line-out-per-line-in", pos(st), fmt.Sprintf("the cleaned lines are written in place, but not one per input line on every path (unconditional: %v, one slot per line: %v): line numbers shift", uncond, sized))
			return pp
		}
		cleaned, back = st.Val, st
		r.OK(rule, "prepass:one-line-out-per-line-in", pos(st), "ssa", "one slot per input line, filled at the loop index on every path; the loop is left only when the lines are exhausted")
		}
	}
	// (4) the ranged slice and the current line
	var ranged ssa.Value
	for _, b := range hdr.Parent().Blocks {
		if !dominatedBy(hdr, b) {
			continue
		}
		for _, in := range b.Instrs {
			ia, ok := in.(*ssa.IndexAddr)
			if !ok {
				continue
			}
			idx := ia.Index
			if bo, ok := idx.(*ssa.BinOp); ok && bo.Op == token.ADD {
				idx = bo.X
			}
			if ph, ok := idx.(*ssa.Phi); ok && ph.Block() == hdr {
				if _, isSlice := ia.X.Type().Underlying().(*types.Slice); isSlice && (stdCall(c.res(ia.X), "strings", "Split") != nil || ranged == nil) {
					if _, isStore := firstStoreUser(ia); isStore && stdCall(c.res(ia.X), "strings", "Split") == nil {
						continue
					}
					ranged = ia.X
					if ia.Referrers() != nil {
						for _, ref := range *ia.Referrers() {
							if ld, ok := ref.(*ssa.UnOp); ok && ld.Op == token.MUL {
								c.line[ld] = true
							}
						}
					}
				}
			}
		}
	}
	if ranged == nil || len(c.line) == 0 {
		r.Unknown(rule, "prepass:line-loop", p.Pos(back.Pos()), "the loop that builds the cleaned lines does not range over a slice of lines")
		return pp
	}
	split := stdCall(c.res(ranged), "strings", "Split")
	okSplit := false
	if split != nil {
		sep, _ := constStr(split.Common().Args[1])
		pp.LineSeparator = sep
		src := c.res(split.Common().Args[0])
		if prm, isP := src.(*ssa.Parameter); isP && prm.Parent() == entry && sep == "\n" {
			okSplit = true
		}
	}
	if okSplit {
		r.OK(rule, "prepass:split", pos(split), "ssa", "strings.Split(data, \"\\n\")")
	} else {
		r.Bad(rule, "prepass:split", p.Pos(back.Pos()), "the lines are not strings.Split(<ParseDSL's parameter>, \"\\n\") (they are "+c.canon(ranged, 0)+"): line numbers of the cleaned text would not be those of the input")
	}
	// (2) every alternative of the cleaned line
	alts := c.alternatives(cleaned, 0)
	for _, st := range multiStores {
		sc := c.condsOf(st.Block())
		for _, a := range c.alternatives(st.Val, 0) {
			altsOverride = append(altsOverride, ppAlt{a.v, append(append([]string{}, sc...), a.conds...)})
		}
	}
	if altsOverride != nil {
		alts = altsOverride
	}
	if implicitBlank {
		// the slot is written only under the conditions of the store; otherwise it keeps its initial ""
		storeConds := c.condsOf(storeBlock)
		for i := range alts {
			alts[i].conds = append(append([]string{}, alts[i].conds...), storeConds...)
		}
	}
	okPrefix, nonEmpty, untrimmed := true, 0, ""
	cutSets := map[string]bool{}
	first := true
	for _, a := range alts {
		if s, isC := constStr(a.v); isC && s == "" {
			continue
		}
		nonEmpty++
		ok, outer, why := c.prefixExpr(a.v, pp, 0)
		if !ok {
			okPrefix = false
			r.Bad(rule, "prepass:prefix", p.Pos(a.v.Pos()), "the cleaned line is not a prefix of the input line: "+why)
			continue
		}
		if !strings.Contains(outer, " ") {
			untrimmed = c.canon(a.v, 0)
		}
		// the guaranteed cut set is what every alternative trims
		if first {
			for _, ch := range outer {
				cutSets[string(ch)] = true
			}
			first = false
		} else {
			for k := range cutSets {
				if !strings.Contains(outer, k) {
					delete(cutSets, k)
				}
			}
		}
	}
	var cs []string
	for k := range cutSets {
		cs = append(cs, k)
	}
	sort.Strings(cs)
	if len(cs) > 0 {
		pp.TrimCutSets = []string{strings.Join(cs, "")}
	}
	if okPrefix {
		r.OK(rule, "prepass:prefix", pos(back), "prefix-preserving-table", fmt.Sprintf("each cleaned line is \"\" or a prefix of its input line (%d alternatives; comment cut at first %q, trailing cut set %q)", len(alts), pp.CommentCut, pp.TrimCutSets))
	}
	switch {
	case nonEmpty == 0:
		r.Unknown(rule, "prepass:trim-outermost", pos(back), "no non-empty alternative of the cleaned line found")
	case untrimmed != "":
		r.Bad(rule, "prepass:trim-outermost", pos(back), "the trailing-blank trim is not the last operation on the cleaned line ("+untrimmed+"): after the comment cut the line can end in a blank (or a carriage return), which the grammar does not accept at the end of input and which re-enables the cubic NEWLINE recursion")
	default:
		r.OK(rule, "prepass:trim-outermost", pos(back), "ssa", fmt.Sprintf("every non-empty cleaned line is strings.TrimRight(…, cut set ∋ ' ') as its last operation (guaranteed cut set %q)", pp.TrimCutSets))
	}
	// the full-line comment rule
	isCommentTest := func(s string) bool {
		tl := `strings.TrimLeft(LINE, " ")`
		for _, f := range []string{tl + `[:1] == "#"`, `strings.HasPrefix(` + tl + `, "#")`, tl + `[0] == 35`} {
			if s == f {
				return true
			}
		}
		return false
	}
	blanked, kept := false, true
	if os.Getenv("VERIF_PP_DEBUG") != "" {
		for _, a := range alts {
			fmt.Fprintf(os.Stderr, "PP alt %s conds=%q\n", c.canon(a.v, 0), a.conds)
		}
	}
	for _, a := range alts {
		s, isC := constStr(a.v)
		empty := isC && s == ""
		pos, neg := false, false
		for _, cd := range a.conds {
			if isCommentTest(cd) {
				pos = true
			}
			if strings.HasPrefix(cd, "!(") && isCommentTest(strings.TrimSuffix(strings.TrimPrefix(cd, "!("), ")")) {
				neg = true
			}
		}
		_ = pos
		if empty || implicitBlank {
			blanked = true // some alternative is ""; it is the only one left when every kept alternative excludes the test
		}
		if !empty && !neg {
			kept = false
		}
	}
	if blanked && kept {
		r.OK(rule, "prepass:full-line-comment", pos(back), "ssa", "every non-empty alternative of the cleaned line is chosen only when the test 'first non-space byte is #' fails, so such a line becomes \"\"")
	} else {
		r.Bad(rule, "prepass:full-line-comment", pos(back), fmt.Sprintf("the test that recognises full-line comments (first non-space byte is '#') does not decide between the blanked and the kept alternatives (blanks on it: %v, kept alternatives exclude it: %v)", blanked, kept))
	}
	// each line is cleaned on its own: a truth value or a text carried from one iteration of the line loop to the next
	// (a "we are inside a … block" flag) makes the fate of a line depend on the lines before it
	carried := ""
	for _, in := range hdr.Instrs {
		ph, ok := in.(*ssa.Phi)
		if !ok {
			break
		}
		if b, ok := ph.Type().Underlying().(*types.Basic); ok && (b.Info()&types.IsBoolean != 0 || b.Info()&types.IsString != 0) {
			loopCarried := false
			for i, e := range ph.Edges {
				if i < len(hdr.Preds) && dominatedBy(hdr, hdr.Preds[i]) {
					if _, isConst := e.(*ssa.Const); !isConst || true {
						loopCarried = loopCarried || e != ssa.Value(ph)
					}
				}
			}
			if loopCarried && ph.Referrers() != nil && len(*ph.Referrers()) > 0 {
				name := ph.Comment
				if name == "" {
					name = ph.Name()
				}
				carried = name
			}
		}
	}
	if carried != "" {
		r.Bad(rule, "prepass:stateless", pos(back), "the variable "+carried+" is carried from one line to the next and read in the loop: what the pre-pass does to a line depends on the lines before it, whereas comments are recognised per line (first non-space byte '#', or the first \" #\")")
	} else {
		r.OK(rule, "prepass:stateless", pos(back), "ssa", "no truth value or text is carried from one iteration of the line loop to the next")
	}
	if pp.CommentCut != " #" {
		r.Bad(rule, "prepass:inline-comment-cut", pos(back), fmt.Sprintf("the inline comment is cut at %q, the DSL comment marker is \" #\"", pp.CommentCut))
	} else {
		r.OK(rule, "prepass:inline-comment-cut", pos(back), "ssa", "cut at the first \" #\"")
	}
	return pp
}

// loopLeftOnlyFromHeader: no break/return inside the loop with this header.
// loopHeaderOfBlock: the innermost loop header that dominates b and is reachable from b again (nil if b is in no loop).
func loopHeaderOfBlock(b *ssa.BasicBlock) *ssa.BasicBlock {
	for h := b; h != nil; h = h.Idom() {
		for _, pred := range h.Preds {
			if dominatedBy(h, pred) && (dominatedBy(h, b)) && reachesBlock(b, pred) {
				return h
			}
		}
	}
	return nil
}

func reachesBlock(from, to *ssa.BasicBlock) bool {
	seen := map[*ssa.BasicBlock]bool{}
	work := []*ssa.BasicBlock{from}
	for len(work) > 0 {
		b := work[0]
		work = work[1:]
		if b == to {
			return true
		}
		if seen[b] {
			continue
		}
		seen[b] = true
		work = append(work, b.Succs...)
	}
	return false
}

// builderShape judges a text assembled in a strings.Builder: inside one complete loop exactly one WriteString of a
// computed string (the cleaned line) on every path, and one "\n" separator per line — written after the line on
// every path, or before it on every iteration but the first. Returns the call that writes the line.
// builderShape … the second result says that the line write is conditional: a line for which nothing is written is an
// empty line (the separator alone keeps the line structure).
func (c *ppCtx) builderShape(recv ssa.Value) (*ssa.Call, bool, string) {
	var lineWrites, sepWrites []*ssa.Call
	for _, f := range c.funcs {
		for _, b := range f.Blocks {
			for _, in := range b.Instrs {
				call, ok := in.(*ssa.Call)
				if !ok {
					continue
				}
				callee := call.Common().StaticCallee()
				if callee == nil || callee.Pkg == nil || callee.Pkg.Pkg.Path() != "strings" || callee.Signature.Recv() == nil || len(call.Common().Args) == 0 || call.Common().Args[0] != recv {
					continue
				}
				switch callee.Name() {
				case "String", "Grow", "Len", "Cap":
				case "WriteString":
					if s, isC := constStr(call.Common().Args[1]); isC {
						if s != "\n" {
							return nil, false, fmt.Sprintf("the constant %q is written into it", s)
						}
						sepWrites = append(sepWrites, call)
					} else {
						lineWrites = append(lineWrites, call)
					}
				case "WriteByte", "WriteRune":
					cst, isC := call.Common().Args[1].(*ssa.Const)
					if !isC || cst.Int64() != '\n' {
						return nil, false, "a character other than the line separator is written into it"
					}
					sepWrites = append(sepWrites, call)
				default:
					return nil, false, "it is also used through " + callee.Name()
				}
			}
		}
	}
	// the builder must not be handed to anything else
	if refs := recv.Referrers(); refs != nil {
		for _, ref := range *refs {
			switch x := ref.(type) {
			case *ssa.Call:
				if x.Common().Args[0] != recv || x.Common().StaticCallee() == nil || x.Common().StaticCallee().Pkg == nil || x.Common().StaticCallee().Pkg.Pkg.Path() != "strings" {
					return nil, false, "the builder is passed to " + x.Common().Value.Name()
				}
			case *ssa.DebugRef:
			case *ssa.Store:
				if x.Addr != recv {
					return nil, false, "the builder's address is stored"
				}
			default:
				return nil, false, "the builder is used in a way that is not understood"
			}
		}
	}
	if len(lineWrites) != 1 || len(sepWrites) != 1 {
		return nil, false, fmt.Sprintf("%d places write a computed string and %d write a separator (one of each is required)", len(lineWrites), len(sepWrites))
	}
	lw, sw := lineWrites[0], sepWrites[0]
	hdr := loopHeaderOfBlock(lw.Block())
	if hdr == nil || lw.Parent() != sw.Parent() {
		return nil, false, "the cleaned line is not written inside a loop"
	}
	if !loopLeftOnlyFromHeader(hdr) {
		return nil, false, "the loop can be left before the lines are exhausted"
	}
	uncond := func(b *ssa.BasicBlock) bool {
		for _, pred := range hdr.Preds {
			if dominatedBy(hdr, pred) && pred != hdr.Preds[0] && !dominatedBy(b, pred) {
				return false
			}
		}
		return true
	}
	conditional := false
	if !uncond(lw.Block()) {
		// written on some paths only: the other paths leave the line empty; still at most once per line
		if loopHeaderOfBlock(lw.Block()) != hdr {
			return nil, false, "the cleaned line is written in a nested loop"
		}
		conditional = true
	}
	before := func(x, y *ssa.Call) bool {
		if x.Block() == y.Block() {
			for _, in := range x.Block().Instrs {
				if in == ssa.Instruction(x) {
					return true
				}
				if in == ssa.Instruction(y) {
					return false
				}
			}
		}
		return dominatedBy(x.Block(), y.Block())
	}
	if uncond(sw.Block()) {
		if !before(lw, sw) {
			return nil, false, "the separator is written before the first line, so every line moves down by one"
		}
		return lw, conditional, ""
	}
	// separator before the line, on every iteration but the first: the only condition on it is index > 0 / index != 0
	if loopHeaderOfBlock(sw.Block()) != hdr {
		return nil, false, "the separator is not written in the loop of the lines"
	}
	conds := e5path.DominatingConds(sw.Block())
	var inLoop []e5path.CondEdge
	for _, ce := range conds {
		if ce.If != nil && dominatedBy(hdr, ce.If.Block()) && ce.If.Block() != hdr {
			inLoop = append(inLoop, ce)
		}
	}
	if len(inLoop) != 1 {
		return nil, false, "the separator is written under conditions that are not understood"
	}
	bo, ok := inLoop[0].Cond.(*ssa.BinOp)
	if !ok {
		return nil, false, "the separator is written under a condition that is not understood"
	}
	idx := bo.X
	isIndex := false
	if add, isAdd := idx.(*ssa.BinOp); isAdd && add.Op == token.ADD {
		// range loops count from -1: the index of the iteration is phi+1
		if ph, isPhi := add.X.(*ssa.Phi); isPhi && ph.Block() == hdr {
			if one, isC := add.Y.(*ssa.Const); isC && one.Int64() == 1 {
				if start, isC := ph.Edges[0].(*ssa.Const); isC && start.Int64() == -1 {
					isIndex = true
				}
			}
		}
	} else if ph, isPhi := idx.(*ssa.Phi); isPhi && ph.Block() == hdr {
		if start, isC := ph.Edges[0].(*ssa.Const); isC && start.Int64() == 0 {
			isIndex = true
		}
	}
	zero, isC := bo.Y.(*ssa.Const)
	notFirst := isIndex && isC && zero.Int64() == 0 && ((bo.Op == token.GTR && inLoop[0].Branch) || (bo.Op == token.NEQ && inLoop[0].Branch) || (bo.Op == token.EQL && !inLoop[0].Branch) || (bo.Op == token.LEQ && !inLoop[0].Branch))
	if !notFirst {
		return nil, false, "the separator is not written exactly on every iteration but the first"
	}
	// within one iteration the separator cannot follow the line: its block is not reachable from the line's block
	// without passing the loop header
	after := false
	if sw.Block() == lw.Block() {
		after = !before(sw, lw)
	} else {
		seen := map[*ssa.BasicBlock]bool{hdr: true}
		work := append([]*ssa.BasicBlock{}, lw.Block().Succs...)
		for len(work) > 0 {
			b := work[0]
			work = work[1:]
			if seen[b] {
				continue
			}
			seen[b] = true
			if b == sw.Block() {
				after = true
			}
			work = append(work, b.Succs...)
		}
	}
	if after {
		return nil, false, "the separator that is skipped on the first iteration is written after the line"
	}
	return lw, conditional, ""
}

func loopLeftOnlyFromHeader(hdr *ssa.BasicBlock) bool {
	if len(hdr.Succs) != 2 {
		return false
	}
	body := hdr.Succs[0]
	for _, b := range hdr.Parent().Blocks {
		if !dominatedBy(body, b) {
			continue
		}
		if len(b.Succs) == 0 {
			return false
		}
		for _, s := range b.Succs {
			if s != hdr && !dominatedBy(body, s) {
				return false
			}
		}
	}
	return true
}

func firstStoreUser(ia *ssa.IndexAddr) (*ssa.Store, bool) {
	if ia.Referrers() == nil {
		return nil, false
	}
	for _, ref := range *ia.Referrers() {
		if st, ok := ref.(*ssa.Store); ok && st.Addr == ssa.Value(ia) {
			return st, true
		}
	}
	return nil, false
}

// exactlyOneStorePerIteration: all stores write at the same loop index and every path from the loop header through
// the body back to the header passes through exactly one of them. Returns the loop header.
func exactlyOneStorePerIteration(stores []*ssa.Store) (*ssa.BasicBlock, bool) {
	var hdr *ssa.BasicBlock
	inStore := map[*ssa.BasicBlock]int{}
	for _, st := range stores {
		ia, ok := st.Addr.(*ssa.IndexAddr)
		if !ok {
			return nil, false
		}
		idx := ia.Index
		if bo, ok := idx.(*ssa.BinOp); ok && bo.Op == token.ADD {
			idx = bo.X
		}
		ph, ok := idx.(*ssa.Phi)
		if !ok || (hdr != nil && ph.Block() != hdr) {
			return nil, false
		}
		hdr = ph.Block()
		inStore[st.Block()]++
	}
	// min and max number of stores on the paths from a block to the header (the loop body is acyclic apart from the back edge)
	type mm struct{ lo, hi int }
	memo := map[*ssa.BasicBlock]*mm{}
	onStack := map[*ssa.BasicBlock]bool{}
	bad := false
	var walk func(b *ssa.BasicBlock) *mm
	walk = func(b *ssa.BasicBlock) *mm {
		if b == hdr {
			return &mm{0, 0}
		}
		if m, ok := memo[b]; ok {
			return m
		}
		if onStack[b] || !dominatedBy(hdr, b) {
			bad = true // a nested loop or an exit from the loop
			return &mm{0, 0}
		}
		onStack[b] = true
		res := &mm{1 << 30, -1}
		for _, s := range b.Succs {
			m := walk(s)
			if m.lo < res.lo {
				res.lo = m.lo
			}
			if m.hi > res.hi {
				res.hi = m.hi
			}
		}
		onStack[b] = false
		if len(b.Succs) == 0 {
			bad = true
			res = &mm{0, 0}
		}
		res.lo += inStore[b]
		res.hi += inStore[b]
		memo[b] = res
		return res
	}
	ok := true
	entered := false
	for _, s := range hdr.Succs {
		if !dominatedBy(hdr, s) || !reachesBlock(s, hdr) {
			continue // the loop exit
		}
		entered = true
		if m := walk(s); m.lo != 1 || m.hi != 1 {
			ok = false
		}
	}
	return hdr, ok && entered && !bad
}
