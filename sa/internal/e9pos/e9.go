// Package e9pos holds the position rules (C16) and the pre-pass shape rule shared with C03.
package e9pos

import (
	"fmt"
	"go/ast"
	"go/constant"
	"go/token"
	"go/types"
	"strings"

	"golang.org/x/tools/go/ssa"
	"golang.org/x/tools/go/types/typeutil"

	"verif/sa/internal/e5path"
	"verif/sa/internal/load"
	"verif/sa/internal/oblig"
)

func calleeName(info *types.Info, call *ast.CallExpr) string {
	if fn, _ := typeutil.Callee(info, call).(*types.Func); fn != nil && fn.Pkg() != nil {
		return fn.Pkg().Path() + "." + fn.Name()
	}
	if id, ok := call.Fun.(*ast.Ident); ok {
		return id.Name
	}
	return ""
}

func constString(info *types.Info, e ast.Expr) (string, bool) {
	if tv, ok := info.Types[e]; ok && tv.Value != nil && tv.Value.Kind() == constant.String {
		return constant.StringVal(tv.Value), true
	}
	return "", false
}

// PrePass is what R9.1 reads off ParseDSL.
type PrePass struct {
	TrimCutSets   []string // cut sets of trailing TrimRight applied to lines
	CommentCut    string   // separator of the inline-comment cut
	FinalTrimSet  string
	LineSeparator string
}

// prefixOf: is e derived from the variable `line` by prefix-preserving operations only?
// Records the cut sets / separators met on the way.
func prefixOf(info *types.Info, e ast.Expr, line types.Object, pp *PrePass) (bool, string) {
	return prefixOfD(info, e, line, pp, 0)
}

// outermostTrim: the constant cut set of e = strings.TrimRight(·, cs), "" otherwise.
func outermostTrim(info *types.Info, e ast.Expr) string {
	if c, ok := ast.Unparen(e).(*ast.CallExpr); ok && calleeName(info, c) == "strings.TrimRight" && len(c.Args) == 2 {
		cs, _ := constString(info, c.Args[1])
		return cs
	}
	return ""
}

func prefixOfD(info *types.Info, e ast.Expr, line types.Object, pp *PrePass, depth int) (bool, string) {
	e = ast.Unparen(e)
	switch x := e.(type) {
	case *ast.Ident:
		if info.Uses[x] == line {
			return true, ""
		}
		return false, "uses " + x.Name + ", not the line"
	case *ast.BasicLit:
		if s, ok := constString(info, x); ok && s == "" {
			return true, ""
		}
	case *ast.CallExpr:
		name := calleeName(info, x)
		switch name {
		case "strings.TrimRight":
			cs, ok := constString(info, x.Args[1])
			if !ok {
				return false, "TrimRight with a non-constant cut set"
			}
			if depth == 0 {
				pp.TrimCutSets = append(pp.TrimCutSets, cs)
			}
			return prefixOfD(info, x.Args[0], line, pp, depth+1)
		case "strings.TrimSuffix":
			return prefixOfD(info, x.Args[0], line, pp, depth+1)
		}
		return false, "call of " + name + " is not prefix-preserving (only TrimRight, TrimSuffix, Split(…)[0], x[:i] with i = Index(x, sep) keep cleaned line i a prefix of input line i)"
	case *ast.IndexExpr:
		// strings.Split(x, sep)[0] / SplitN(x, sep, n)[0]
		if call, ok := ast.Unparen(x.X).(*ast.CallExpr); ok {
			name := calleeName(info, call)
			if (name == "strings.Split" || name == "strings.SplitN") && len(call.Args) >= 2 {
				if tv, ok := info.Types[x.Index]; ok && tv.Value != nil && tv.Value.String() == "0" {
					sep, ok := constString(info, call.Args[1])
					if !ok {
						return false, "Split with a non-constant separator"
					}
					pp.CommentCut = sep
					return prefixOfD(info, call.Args[0], line, pp, depth+1)
				}
			}
		}
	case *ast.SliceExpr:
		if x.Low != nil {
			if tv, ok := info.Types[x.Low]; !ok || tv.Value == nil || tv.Value.String() != "0" {
				return false, "slice with a non-zero lower bound drops leading text (columns shift)"
			}
		}
		// upper bound must be the FIRST occurrence of a separator
		if call, ok := ast.Unparen(x.High).(*ast.CallExpr); ok {
			name := calleeName(info, call)
			if name == "strings.Index" && len(call.Args) == 2 {
				if sep, ok := constString(info, call.Args[1]); ok {
					pp.CommentCut = sep
				}
				return prefixOfD(info, x.X, line, pp, depth+1)
			}
			return false, "the cut position comes from " + name + ", not from the first occurrence (strings.Index) of the comment marker"
		}
		return false, "slice with an upper bound that is not strings.Index(x, sep)"
	}
	return false, "unsupported expression " + types.ExprString(e)
}

func inSwitch(root ast.Node, target ast.Node) bool {
	found := false
	ast.Inspect(root, func(n ast.Node) bool {
		switch s := n.(type) {
		case *ast.SwitchStmt:
			if s.Pos() <= target.Pos() && target.End() <= s.End() {
				found = true
			}
		case *ast.TypeSwitchStmt:
			if s.Pos() <= target.Pos() && target.End() <= s.End() {
				found = true
			}
		}
		return true
	})
	return found
}

func hasRec(r *oblig.Report, rule, construct string) bool {
	for _, rec := range r.Records {
		if rec.Rule == rule && rec.Construct == construct {
			return true
		}
	}
	return false
}

// LineConversion (R9.2): the syntax error stores line-1 and the column unchanged, unconditionally.
func LineConversion(p *load.Prog, r *oblig.Report, rule string) {
	fn := p.Method("transformer", "OpenFgaDslErrorListener", "SyntaxError")
	if fn == nil {
		r.Unknown(rule, "anchor:SyntaxError", "-", "SyntaxError not found")
		return
	}
	var lineP, colP *ssa.Parameter
	for _, q := range fn.Params {
		switch q.Name() {
		case "line":
			lineP = q
		case "column":
			colP = q
		}
	}
	found := false
	for _, b := range fn.Blocks {
		for _, in := range b.Instrs {
			st, ok := in.(*ssa.Store)
			if !ok {
				continue
			}
			fa, ok := st.Addr.(*ssa.FieldAddr)
			if !ok {
				continue
			}
			t := fa.X.Type().Underlying().(*types.Pointer).Elem()
			named, ok := t.(*types.Named)
			if !ok || named.Obj().Name() != "OpenFgaDslSyntaxError" {
				continue
			}
			fname := named.Underlying().(*types.Struct).Field(fa.Field).Name()
			switch fname {
			case "line":
				found = true
				bo, ok := st.Val.(*ssa.BinOp)
				c, _ := func() (*ssa.Const, bool) {
					if ok {
						cc, k := bo.Y.(*ssa.Const)
						return cc, k
					}
					return nil, false
				}()
				if ok && bo.Op == token.SUB && bo.X == ssa.Value(lineP) && c != nil && c.Int64() == 1 {
					r.OK(rule, "syntax-error-line", p.Pos(st.Pos()), "def-use", "line = <ANTLR line> - 1")
				} else {
					r.Bad(rule, "syntax-error-line", p.Pos(st.Pos()), "the stored line is not unconditionally the listener's one-based line parameter minus 1 ("+e5path.AccessPath(st.Val)+")")
				}
			case "column":
				if st.Val == ssa.Value(colP) {
					r.OK(rule, "syntax-error-column", p.Pos(st.Pos()), "def-use", "column = <ANTLR column>")
				} else {
					r.Bad(rule, "syntax-error-column", p.Pos(st.Pos()), "the stored column is not unconditionally the listener's zero-based column parameter ("+e5path.AccessPath(st.Val)+")")
				}
			}
		}
	}
	if !found {
		r.Unknown(rule, "syntax-error-line", p.Pos(fn.Pos()), "no OpenFgaDslSyntaxError literal found in SyntaxError")
	}
}

// OffendingTokens (R9.3): every NotifyErrorListeners call in the listener passes the start token of
// the NAME it complains about (an accessor on ctx whose text is used in the same callback), never
// the start of the whole declaration, and a nil exception.
func OffendingTokens(p *load.Prog, r *oblig.Report, rule string, methods []string, nameRules map[string]bool) {
	for _, m := range methods {
		fn := p.Method("transformer", "OpenFgaDslListener", m)
		if fn == nil {
			r.Unknown(rule, "anchor:"+m, "-", "listener method not found")
			continue
		}
		texts := map[string]bool{}
		for _, b := range fn.Blocks {
			for _, in := range b.Instrs {
				if v, ok := in.(ssa.Value); ok {
					if pth := e5path.AccessPath(v); strings.HasSuffix(pth, ".GetText()") {
						texts[strings.TrimSuffix(pth, ".GetText()")] = true
					}
				}
			}
		}
		n := 0
		{
			for _, ci := range e5path.CallsWithHelpers(fn, 2) {
				ci := ci
				cc := ci.Call.Common()
				in := ci.Via.(ssa.Instruction)
				if !cc.IsInvoke() || cc.Method.Name() != "NotifyErrorListeners" || len(cc.Args) != 3 {
					continue
				}
				n++
				construct := fmt.Sprintf("offending-token:%s", m)
				tokPath := ci.Path(cc.Args[1])
				base := strings.TrimSuffix(tokPath, ".GetStart()")
				nilExc := false
				if c, ok := cc.Args[2].(*ssa.Const); ok && c.IsNil() {
					nilExc = true
				}
				switch {
				case !strings.HasSuffix(tokPath, ".GetStart()"):
					r.Bad(rule, construct, p.Pos(in.Pos()), "the offending token is "+tokPath+", not the start token of the name")
				case base == "ctx":
					r.Bad(rule, construct, p.Pos(in.Pos()), "the error points at ctx.GetStart(), the start of the whole declaration, not at the offending name")
				case !texts[base] && !nameRules[ruleOfContext(cc.Args[1])] && !nameRules[ruleOfContextPath(ci, cc.Args[1])] &&
					!nameRules[ruleOfContext(ci.Arg(cc.Args[1]))] && !nameRules[ruleOfContextPath(ci, ci.Arg(cc.Args[1]))]:
					r.Bad(rule, construct, p.Pos(in.Pos()), "the error points at "+base+", which is neither a name rule of the grammar nor the text this callback reads")
				case !nilExc:
					r.Bad(rule, construct, p.Pos(in.Pos()), "a recognition exception is passed along: the position would be taken from it instead of the token")
				default:
					r.OK(rule, construct, p.Pos(in.Pos()), "access-path", tokPath)
				}
			}
		}
		if n == 0 {
			r.Unknown(rule, "offending-token:"+m, p.Pos(fn.Pos()), "no NotifyErrorListeners call found: anchor no longer resolves")
		}
	}
}

// MergeErrors (R9.4): every ModuleTransformationSingleError names its file; Line/Column come from one
// ConstructLineAndColumnData(lines, idx, sym) call whose lines belong to that file and whose idx
// comes from the finder matching the kind of conflict, applied to the same symbol.
func MergeErrors(p *load.Prog, r *oblig.Report, rule string) {
	fn := p.Func("transformer", "TransformModuleFilesToModel")
	if fn == nil {
		r.Unknown(rule, "anchor:TransformModuleFilesToModel", "-", "function not found")
		return
	}
	kinds := []struct{ msg, finder string }{
		{"duplicate type definition", "GetTypeLineNumber"},
		{"duplicate condition", "GetConditionLineNumber"},
		{"extended type", "GetExtendedTypeLineNumber"},
		{"relation", "GetRelationLineNumber"},
	}
	n := 0
	{
		for _, li := range e5path.LiteralInstances(fn, "ModuleTransformationSingleError") {
			li := li
			al := li.Pos
			n++
			fields := map[string]ssa.Value{}
			for k, v := range li.Fields {
				fields[k] = li.Arg(v)
			}
			msg := messageText(fields["Msg"])
			construct := "merge-error:" + firstWords(msg)
			pos := p.Pos(al.Pos())
			file := fields["File"]
			if file == nil {
				r.Bad(rule, construct, pos, "the error does not set File: the caller cannot tell which file is at fault")
				continue
			}
			filePath := e5path.AccessPath(file)
			line, col := fields["Line"], fields["Column"]
			if line == nil && col == nil {
				r.OK(rule, construct, pos, "file-only", "File = "+filePath)
				continue
			}
			// Line and Column: Extract #0 / #1 of one ConstructLineAndColumnData call (possibly converted to the field's struct type)
			unconv := func(v ssa.Value) ssa.Value {
				for {
					switch x := v.(type) {
					case *ssa.ChangeType:
						v = x.X
						continue
					case *ssa.Convert:
						v = x.X
						continue
					}
					return v
				}
			}
			le, ok1 := unconv(line).(*ssa.Extract)
			ce, ok2 := unconv(col).(*ssa.Extract)
			if !ok1 || !ok2 || le.Tuple != ce.Tuple || le.Index != 0 || ce.Index != 1 {
				r.Bad(rule, construct, pos, "Line and Column are not the two results of one ConstructLineAndColumnData call")
				continue
			}
			call, ok := le.Tuple.(*ssa.Call)
			if !ok || call.Common().StaticCallee() == nil || call.Common().StaticCallee().Name() != "ConstructLineAndColumnData" {
				r.Bad(rule, construct, pos, "Line/Column do not come from ConstructLineAndColumnData")
				continue
			}
			lines, idx, sym := li.Arg(call.Common().Args[0]), li.Arg(call.Common().Args[1]), li.Arg(call.Common().Args[2])
			// file/lines pairing
			linesPath := e5path.AccessPath(lines)
			pair := false
			switch {
			case strings.HasSuffix(filePath, ".Name") && strings.Contains(linesPath, "strings.Split") || (strings.HasSuffix(filePath, ".Name") && linesFromContentsOf(lines, strings.TrimSuffix(filePath, ".Name"))):
				pair = true
			case linesLookupKey(lines) != "" && linesLookupKey(lines) == filePath:
				pair = true
			case pairedFields(fn, file, lines):
				// File and lines are two fields of one record, and every such record is built from one module:
				// {name: M.Name, lines: strings.Split(M.Contents, "\n")}
				pair = true
			}
			if !pair {
				r.Bad(rule, construct, pos, "File is "+filePath+" but the line is searched in "+linesPath+": file and position belong to different files")
				continue
			}
			// finder
			fcall, ok := idx.(*ssa.Call)
			finder := ""
			if ok {
				if cal := fcall.Common().StaticCallee(); cal != nil {
					finder = cal.Name()
				} else if fv, isFn := stripChangeType(li.Arg(fcall.Common().Value)).(*ssa.Function); isFn {
					finder = fv.Name() // the finder is handed to the constructor helper as a function value
				}
			}
			if finder == "" {
				r.Bad(rule, construct, pos, "the line index does not come from a line finder")
				continue
			}
			want := ""
			for _, k := range kinds {
				if strings.HasPrefix(msg, k.msg) {
					want = k.finder
				}
			}
			fargs := append([]ssa.Value{}, fcall.Common().Args...)
			for i := range fargs {
				fargs[i] = li.Arg(fargs[i])
			}
			switch {
			case want == "":
				r.Unknown(rule, construct, pos, "unknown kind of merge error: "+msg)
			case finder != want:
				r.Bad(rule, construct, pos, "a '"+firstWords(msg)+"' error looks its line up with "+finder+", expected "+want+": the position would be that of a different kind of declaration")
			case len(fargs) != 2 || (fargs[1] != lines && !(e5path.AccessPath(fargs[1]) == e5path.AccessPath(lines) && !strings.HasPrefix(e5path.AccessPath(lines), "‹"))):
				r.Bad(rule, construct, pos, "the finder searches other lines than the ones the column is computed on")
			case e5path.AccessPath(fargs[0]) != e5path.AccessPath(sym):
				r.Bad(rule, construct, pos, "the finder looks for "+e5path.AccessPath(fargs[0])+" but the column is computed for "+e5path.AccessPath(sym))
			default:
				r.OK(rule, construct, pos, "paired", fmt.Sprintf("File=%s, lines of the same file, %s(%s)", filePath, finder, e5path.AccessPath(sym)))
			}
		}
	}
	if n == 0 {
		r.Unknown(rule, "merge-error", p.Pos(fn.Pos()), "no ModuleTransformationSingleError literal found")
	}
}

func messageText(v ssa.Value) string {
	switch x := v.(type) {
	case *ssa.Const:
		if x.Value != nil && x.Value.Kind() == constant.String {
			return constant.StringVal(x.Value)
		}
	case *ssa.BinOp:
		return messageText(x.X)
	case *ssa.Call:
		if c := x.Common().StaticCallee(); c != nil && c.Name() == "Sprintf" {
			return messageText(x.Common().Args[0])
		}
	}
	return "?"
}

func firstWords(s string) string {
	f := strings.Fields(s)
	if len(f) > 3 {
		f = f[:3]
	}
	out := strings.Join(f, " ")
	return strings.Map(func(r rune) rune {
		if r == '%' {
			return -1
		}
		return r
	}, out)
}

// linesFromContentsOf: lines == strings.Split(<owner>.Contents, "\n")
func linesFromContentsOf(lines ssa.Value, owner string) bool {
	call, ok := lines.(*ssa.Call)
	if !ok || call.Common().StaticCallee() == nil || call.Common().StaticCallee().Name() != "Split" {
		return false
	}
	return e5path.AccessPath(call.Common().Args[0]) == owner+".Contents"
}

// pairedFields: file and lines are fields of the same struct value, and every literal of that struct type the
// merger (or a helper of its package) builds takes the one from <M>.Name and the other from
// strings.Split(<M>.Contents, …) of the same module M.
func pairedFields(merger *ssa.Function, file, lines ssa.Value) bool {
	fieldOf := func(v ssa.Value) (ssa.Value, int, types.Type) {
		switch x := v.(type) {
		case *ssa.UnOp:
			if fa, ok := x.X.(*ssa.FieldAddr); ok {
				return fa.X, fa.Field, fa.X.Type()
			}
		case *ssa.Field:
			return x.X, x.Field, x.X.Type()
		}
		return nil, 0, nil
	}
	fb, ff, ft := fieldOf(file)
	lb, lf, lt := fieldOf(lines)
	if fb == nil || lb == nil || ff == lf || !types.Identical(ft, lt) || e5path.AccessPath(fb) != e5path.AccessPath(lb) {
		return false
	}
	st := ft
	if p, ok := st.Underlying().(*types.Pointer); ok {
		st = p.Elem()
	}
	n, okAll := 0, true
	for _, m := range merger.Pkg.Members {
		f, isFn := m.(*ssa.Function)
		if !isFn {
			continue
		}
		for _, b := range f.Blocks {
			for _, in := range b.Instrs {
				al, ok := in.(*ssa.Alloc)
				if !ok || !types.Identical(al.Type().Underlying().(*types.Pointer).Elem(), st) || al.Referrers() == nil {
					continue
				}
				var nameV, linesV ssa.Value
				for _, ref := range *al.Referrers() {
					fa, ok := ref.(*ssa.FieldAddr)
					if !ok || fa.Referrers() == nil {
						continue
					}
					for _, r2 := range *fa.Referrers() {
						if s, ok := r2.(*ssa.Store); ok && s.Addr == ssa.Value(fa) {
							if fa.Field == ff {
								nameV = s.Val
							}
							if fa.Field == lf {
								linesV = s.Val
							}
						}
					}
				}
				if nameV == nil && linesV == nil {
					continue // a spilled copy (value receiver), not a literal
				}
				n++
				np := ""
				if nameV != nil {
					np = e5path.AccessPath(nameV)
				}
				if !strings.HasSuffix(np, ".Name") || linesV == nil || !linesFromContentsOf(linesV, strings.TrimSuffix(np, ".Name")) {
					okAll = false
				}
			}
		}
	}
	return n > 0 && okAll
}

// linesLookupKey: lines == moduleFiles[key] → path of key
func linesLookupKey(lines ssa.Value) string {
	if lk, ok := lines.(*ssa.Lookup); ok {
		return e5path.AccessPath(lk.Index)
	}
	return ""
}

// ruleOfContext: for a value X.GetStart() where X has the generated type I<Rule>Context, the rule name.
func ruleOfContext(tok ssa.Value) string {
	call, ok := tok.(*ssa.Call)
	if !ok || !call.Common().IsInvoke() {
		return ""
	}
	t := call.Common().Value.Type().String()
	i := strings.LastIndex(t, ".I")
	if i < 0 || !strings.HasSuffix(t, "Context") {
		return ""
	}
	name := strings.TrimSuffix(t[i+2:], "Context")
	if name == "" {
		return ""
	}
	return strings.ToLower(name[:1]) + name[1:]
}

// ruleOfContextPath: like ruleOfContext for a token taken inside a helper from one of its parameters: the
// grammar rule of the context the caller passes for that parameter.
func ruleOfContextPath(ci e5path.CallInst, tok ssa.Value) string {
	call, ok := tok.(*ssa.Call)
	if !ok || !call.Common().IsInvoke() {
		return ""
	}
	recv := ci.Arg(call.Common().Value)
	for {
		switch x := recv.(type) {
		case *ssa.MakeInterface:
			recv = x.X
			continue
		case *ssa.ChangeInterface:
			recv = x.X
			continue
		}
		break
	}
	t := recv.Type().String()
	i := strings.LastIndex(t, ".I")
	if i < 0 {
		i = strings.LastIndex(t, ".")
		if i < 0 || !strings.HasSuffix(t, "Context") {
			return ""
		}
		name := strings.TrimSuffix(t[i+1:], "Context")
		if name == "" {
			return ""
		}
		return strings.ToLower(name[:1]) + name[1:]
	}
	if !strings.HasSuffix(t, "Context") {
		return ""
	}
	name := strings.TrimSuffix(t[i+2:], "Context")
	if name == "" {
		return ""
	}
	return strings.ToLower(name[:1]) + name[1:]
}

// stripChangeType removes conversions between identical underlying types (a function converted to a named func type).
func stripChangeType(v ssa.Value) ssa.Value {
	for {
		ct, ok := v.(*ssa.ChangeType)
		if !ok {
			return v
		}
		v = ct.X
	}
}

// ColumnIsFirstOccurrence (R9.6): the column of a merge conflict is the position of the FIRST occurrence of the
// symbol on the located line (strings.Index): the declared name stands before any later mention of it on the same
// line (`define member: [user, group#member]`), so a search from the right points at the wrong text.
func ColumnIsFirstOccurrence(p *load.Prog, r *oblig.Report, rule string) {
	fn := p.Func("utils", "ConstructLineAndColumnData")
	construct := "column-first-occurrence:ConstructLineAndColumnData"
	if fn == nil {
		r.Unknown(rule, construct, "-", "ConstructLineAndColumnData not found")
		return
	}
	var sym *ssa.Parameter
	for _, q := range fn.Params {
		if b, ok := q.Type().Underlying().(*types.Basic); ok && b.Kind() == types.String {
			sym = q
		}
	}
	found, bad := 0, ""
	seen := map[*ssa.Function]bool{}
	var scan func(f *ssa.Function, depth int)
	scan = func(f *ssa.Function, depth int) {
		if seen[f] || depth > 2 {
			return
		}
		seen[f] = true
		for _, b := range f.Blocks {
			for _, in := range b.Instrs {
				call, ok := in.(*ssa.Call)
				if !ok {
					continue
				}
				c := call.Common().StaticCallee()
				if c == nil || c.Pkg == nil {
					continue
				}
				if c.Pkg == fn.Pkg && len(c.Blocks) > 0 {
					scan(c, depth+1)
					continue
				}
				if c.Pkg.Pkg.Path() != "strings" || len(call.Common().Args) != 2 {
					continue
				}
				// a search for the symbol in a line
				arg := call.Common().Args[1]
				if f == fn && arg != ssa.Value(sym) {
					continue
				}
				switch c.Name() {
				case "Index":
					found++
				case "LastIndex", "LastIndexAny", "IndexAny", "LastIndexByte":
					bad = "strings." + c.Name() + " at " + p.Pos(call.Pos())
				}
			}
		}
	}
	scan(fn, 0)
	switch {
	case bad != "":
		r.Bad(rule, construct, p.Pos(fn.Pos()), "the column is searched with "+bad+": when the name occurs again further right on its line (a self-reference in the definition) the reported column is that of the later mention")
	case found == 0:
		r.Unknown(rule, construct, p.Pos(fn.Pos()), "no strings.Index search for the symbol found")
	default:
		r.OK(rule, construct, p.Pos(fn.Pos()), "call-scan", "strings.Index(line, symbol): first occurrence")
	}
}

// MergeTextVerbatim (C16, merge errors "name the file and the line"): the line table a merge conflict is located in,
// and the text handed to the module parser (whose syntax errors are forwarded with their positions), are the file's
// contents as given — strings.Split(<module>.Contents, "\n") and <module>.Contents. A trimmed, re-encoded or
// otherwise rewritten text shifts every reported line.
func MergeTextVerbatim(p *load.Prog, r *oblig.Report, rule string) {
	fn := p.Func("transformer", "TransformModuleFilesToModel")
	if fn == nil {
		r.Unknown(rule, "merge-text:anchor", "-", "TransformModuleFilesToModel not found")
		return
	}
	seen := map[*ssa.Function]bool{fn: true}
	work := []*ssa.Function{fn}
	var funcs []*ssa.Function
	for len(work) > 0 {
		f := work[0]
		work = work[1:]
		funcs = append(funcs, f)
		for _, b := range f.Blocks {
			for _, in := range b.Instrs {
				if ci, ok := in.(ssa.CallInstruction); ok {
					if cal := ci.Common().StaticCallee(); cal != nil && cal.Pkg == fn.Pkg && !seen[cal] && len(cal.Blocks) > 0 && !ast.IsExported(cal.Name()) {
						seen[cal] = true
						work = append(work, cal)
					}
				}
			}
		}
		for _, af := range f.AnonFuncs {
			if !seen[af] {
				seen[af] = true
				work = append(work, af)
			}
		}
	}
	tables, parses := 0, 0
	for _, f := range funcs {
		for _, b := range f.Blocks {
			for _, in := range b.Instrs {
				call, ok := in.(*ssa.Call)
				if !ok {
					continue
				}
				cal := call.Common().StaticCallee()
				if cal == nil {
					continue
				}
				switch {
				case cal.String() == "strings.Split" && len(call.Common().Args) == 2:
					if c, ok := call.Common().Args[1].(*ssa.Const); !ok || c.Value == nil || constant.StringVal(c.Value) != "\n" {
						continue
					}
					src := e5path.AccessPath(call.Common().Args[0])
					if !strings.Contains(src, "Contents") {
						// a split of something that is not (derived from) a module's text: not a line table
						if _, isParam := call.Common().Args[0].(*ssa.Parameter); !isParam {
							continue
						}
					}
					tables++
					construct := "merge-text:line-table:" + load.FuncName(f)
					if strings.HasSuffix(src, ".Contents") {
						r.OK(rule, construct, p.Pos(call.Pos()), "verbatim", "strings.Split("+src+", \"\\n\")")
					} else {
						r.Bad(rule, construct, p.Pos(call.Pos()), "the line table is strings.Split("+src+", \"\\n\"), not the split of the file's contents as given: every line reported for this file is counted in a rewritten text")
					}
				case cal.Name() == "TransformModularDSLToProto" && len(call.Common().Args) == 1:
					parses++
					src := e5path.AccessPath(call.Common().Args[0])
					construct := "merge-text:parsed-text:" + load.FuncName(f)
					if strings.HasSuffix(src, ".Contents") {
						r.OK(rule, construct, p.Pos(call.Pos()), "verbatim", "the module parser is given "+src)
					} else {
						r.Bad(rule, construct, p.Pos(call.Pos()), "the module parser is given "+src+", not the file's contents as given: the positions of forwarded syntax errors and the lines found for conflicts no longer refer to the same text")
					}
				}
			}
		}
	}
	if tables == 0 || parses == 0 {
		r.Unknown(rule, "merge-text:anchor", p.Pos(fn.Pos()), fmt.Sprintf("expected a line table and a parse of each module's contents (found %d and %d)", tables, parses))
	}
}
