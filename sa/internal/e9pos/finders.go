package e9pos

import (
	"fmt"
	"go/constant"
	"go/token"
	"sort"
	"strings"

	"golang.org/x/tools/go/ssa"

	"verif/sa/internal/g4"
	"verif/sa/internal/load"
	"verif/sa/internal/oblig"
)

// nameChars computes the characters that can occur inside a DSL name from the lexer grammar:
// everything the rules IDENTIFIER and EXTENDED_IDENTIFIER can consume.
func nameChars(lg *g4.Grammar) map[byte]bool {
	out := map[byte]bool{}
	seen := map[string]bool{}
	var visit func(name string)
	visit = func(name string) {
		if seen[name] {
			return
		}
		seen[name] = true
		rl := lg.ByName[name]
		if rl == nil {
			return
		}
		g4.Walk(rl.Body, func(n g4.Node) {
			switch x := n.(type) {
			case *g4.Lit:
				for _, c := range x.S {
					if c < 256 {
						out[byte(c)] = true
					}
				}
			case *g4.Range:
				for c := x.Lo; c <= x.Hi && c < 256; c++ {
					out[byte(c)] = true
				}
			case *g4.Ref:
				visit(x.Name)
			}
		})
	}
	visit("IDENTIFIER")
	visit("EXTENDED_IDENTIFIER")
	return out
}

// abstract values of the helper interpreter
type aval struct {
	kind string // bool, byte, rest (the non-empty remainder), found, str-empty, unknown
	b    bool
	c    int64
}

// evalHelper runs the helper's SSA for "the prefix matched, the remainder is non-empty and starts
// with byte c" and returns the boolean it returns, or ok=false when something is not understood.
func evalHelper(fn *ssa.Function, c byte) (result bool, ok bool, why string) {
	return evalHelperArgs(fn, c, nil, 0)
}

func evalHelperArgs(fn *ssa.Function, c byte, args []aval, depth int) (result bool, ok bool, why string) {
	if depth > 4 || len(fn.Blocks) == 0 {
		return false, false, "helper nesting too deep"
	}
	vals := map[ssa.Value]aval{}
	for i, prm := range fn.Params {
		if i < len(args) {
			vals[prm] = args[i]
		}
	}
	get := func(v ssa.Value) aval {
		if cv, isC := v.(*ssa.Const); isC {
			if cv.Value == nil {
				return aval{kind: "unknown"}
			}
			switch cv.Value.Kind() {
			case constant.Bool:
				return aval{kind: "bool", b: constant.BoolVal(cv.Value)}
			case constant.Int:
				return aval{kind: "byte", c: cv.Int64()}
			case constant.String:
				if constant.StringVal(cv.Value) == "" {
					return aval{kind: "str-empty"}
				}
			}
			return aval{kind: "unknown"}
		}
		if a, found := vals[v]; found {
			return a
		}
		return aval{kind: "unknown"}
	}
	block := fn.Blocks[0]
	var prev *ssa.BasicBlock
	for steps := 0; steps < 500; steps++ {
		for _, in := range block.Instrs {
			switch x := in.(type) {
			case *ssa.Phi:
				for i, p := range block.Preds {
					if p == prev {
						vals[x] = get(x.Edges[i])
					}
				}
			case *ssa.Call:
				name := ""
				if cal := x.Common().StaticCallee(); cal != nil && cal.Pkg != nil {
					name = cal.Pkg.Pkg.Path() + "." + cal.Name()
				}
				switch name {
				case "strings.TrimSpace", "strings.TrimLeft", "strings.FieldsFunc", "strings.Fields", "strings.Join":
					// the line, or the line with its runs of blanks read as one: the character that follows the matched
					// prefix is the same unless it is a blank
					vals[x] = aval{kind: "line"}
				case "strings.CutPrefix":
					vals[x] = aval{kind: "cut"}
				case "strings.HasPrefix":
					vals[x] = aval{kind: "bool", b: true}
				case "strings.TrimPrefix":
					vals[x] = aval{kind: "rest"}
				default:
					if b, isB := x.Common().Value.(*ssa.Builtin); isB && b.Name() == "len" {
						if get(x.Common().Args[0]).kind == "rest" {
							vals[x] = aval{kind: "len-rest"}
						} else {
							vals[x] = aval{kind: "unknown"}
						}
					} else if cal := x.Common().StaticCallee(); cal != nil && load.InRepo(cal) && len(cal.Blocks) > 0 && cal.Signature.Results().Len() == 1 {
						// a repository helper deciding on the next character (e.g. isNameCharacter(rest[0]))
						var as []aval
						for _, a := range x.Common().Args {
							as = append(as, get(a))
						}
						res, ok, why := evalHelperArgs(cal, c, as, depth+1)
						if !ok {
							return false, false, why
						}
						vals[x] = aval{kind: "bool", b: res}
					} else {
						vals[x] = aval{kind: "unknown"}
						return false, false, "call of " + name + " (" + x.String() + ") is not understood"
					}
				}
			case *ssa.Extract:
				if get(x.Tuple).kind == "cut" {
					if x.Index == 0 {
						vals[x] = aval{kind: "rest"}
					} else {
						vals[x] = aval{kind: "bool", b: true}
					}
				}
			case *ssa.Index:
				if get(x.X).kind == "rest" {
					if i := get(x.Index); i.kind == "byte" && i.c == 0 {
						vals[x] = aval{kind: "byte", c: int64(c)}
					}
				}
			case *ssa.Lookup:
				if get(x.X).kind == "rest" {
					if i := get(x.Index); i.kind == "byte" && i.c == 0 {
						vals[x] = aval{kind: "byte", c: int64(c)}
					}
				}
			case *ssa.Slice:
				// line[len(prefix):] → the remainder
				vals[x] = aval{kind: "rest"}
			case *ssa.Convert:
				vals[x] = get(x.X)
			case *ssa.UnOp:
				a := get(x.X)
				if x.Op == token.NOT && a.kind == "bool" {
					vals[x] = aval{kind: "bool", b: !a.b}
				}
			case *ssa.BinOp:
				l, r := get(x.X), get(x.Y)
				switch {
				case l.kind == "byte" && r.kind == "byte":
					var b bool
					switch x.Op {
					case token.EQL:
						b = l.c == r.c
					case token.NEQ:
						b = l.c != r.c
					case token.LSS:
						b = l.c < r.c
					case token.LEQ:
						b = l.c <= r.c
					case token.GTR:
						b = l.c > r.c
					case token.GEQ:
						b = l.c >= r.c
					default:
						return false, false, "operator " + x.Op.String()
					}
					vals[x] = aval{kind: "bool", b: b}
				case (l.kind == "rest" && r.kind == "str-empty") || (l.kind == "str-empty" && r.kind == "rest"):
					vals[x] = aval{kind: "bool", b: x.Op == token.NEQ}
				case l.kind == "len-rest" && r.kind == "byte":
					// len(rest) compared with a constant: rest is non-empty, length >= 1 (only 0 is decidable)
					if r.c == 0 {
						switch x.Op {
						case token.EQL:
							vals[x] = aval{kind: "bool", b: false}
						case token.NEQ, token.GTR:
							vals[x] = aval{kind: "bool", b: true}
						}
					}
				}
			case *ssa.If:
				cv := get(x.Cond)
				if cv.kind != "bool" {
					return false, false, "a branch depends on something that is not a function of the next character"
				}
				prev = block
				if cv.b {
					block = block.Succs[0]
				} else {
					block = block.Succs[1]
				}
			case *ssa.Jump:
				prev = block
				block = block.Succs[0]
			case *ssa.Return:
				rv := get(x.Results[0])
				if rv.kind != "bool" {
					return false, false, "the result is not a function of the next character"
				}
				return rv.b, true, ""
			}
		}
	}
	return false, false, "evaluation did not terminate"
}

// Finders (R9.5): the line finders used for merge errors must not stop at a declaration whose name
// merely starts with the name searched for, and the relation finder must be scoped to its type.
func Finders(p *load.Prog, r *oblig.Report, rule string, lg *g4.Grammar) {
	if lg == nil {
		r.Unknown(rule, "anchor:lexer-grammar", "-", "OpenFGALexer.g4 not readable")
		return
	}
	chars := nameChars(lg)
	finders := []string{"GetConditionLineNumber", "GetTypeLineNumber", "GetExtendedTypeLineNumber", "GetRelationLineNumber"}
	for _, name := range finders {
		fn := p.Func("utils", name)
		construct := "finder-delimited:" + name
		if fn == nil {
			r.Unknown(rule, construct, "-", "finder not found")
			continue
		}
		// the function that decides whether a line declares the name: among the functions the finder reaches
		// (closures and helpers of its package), the one that tests the line against the prefix
		var helper *ssa.Function
		direct := ""
		seen := map[*ssa.Function]bool{}
		var visit func(f *ssa.Function, depth int)
		visit = func(f *ssa.Function, depth int) {
			if f == nil || seen[f] || depth > 4 || len(f.Blocks) == 0 {
				return
			}
			seen[f] = true
			for _, an := range f.AnonFuncs {
				visit(an, depth+1)
			}
			usesPrefix := false
			for _, b := range f.Blocks {
				for _, in := range b.Instrs {
					call, ok := in.(*ssa.Call)
					if !ok {
						continue
					}
					cal := call.Common().StaticCallee()
					if cal == nil {
						continue
					}
					if cal.Pkg != nil && cal.Pkg.Pkg.Path() == "strings" {
						switch cal.Name() {
						case "CutPrefix", "TrimPrefix":
							usesPrefix = true
						case "HasPrefix":
							usesPrefix = true
							// returned as is?
							if refs := call.Referrers(); refs != nil {
								for _, ref := range *refs {
									if _, isRet := ref.(*ssa.Return); isRet {
										direct = "strings.HasPrefix"
									}
								}
							}
						}
					} else if load.InRepo(cal) {
						visit(cal, depth+1)
					}
				}
			}
			if usesPrefix && f.Signature.Results().Len() == 1 && helper == nil {
				helper = f
			}
		}
		visit(fn, 0)
		switch {
		case direct == "strings.HasPrefix":
			r.Bad(rule, construct, p.Pos(fn.Pos()), "the finder accepts a line by strings.HasPrefix(line, keyword+name) alone: a declaration of a longer name with the same prefix (e.g. 'username' for 'user') that stands earlier is returned instead")
			continue
		case helper == nil:
			r.Unknown(rule, construct, p.Pos(fn.Pos()), "no function that tests a line against keyword+name was found in what the finder reaches")
			continue
		}
		// blanks: the keyword and the name are separated by one or more of the lexer's WHITESPACE characters; a literal
		// prefix written with single spaces matches only if the runs of blanks in the line are read as one space
		// (strings.Fields / FieldsFunc joined again) or the comparison is done by a regular expression
		if blanks := blanksNormalised(helper); blanks != "" {
			r.Bad(rule, "finder-blanks:"+name, p.Pos(helper.Pos()), blanks)
		} else {
			r.OK(rule, "finder-blanks:"+name, p.Pos(helper.Pos()), "value-origin", "the line is compared with runs of blanks read as one space")
		}
		var mistaken []string
		undecided := ""
		for c := 0; c < 256; c++ {
			if !chars[byte(c)] {
				continue
			}
			res, ok, why := evalHelper(helper, byte(c))
			if !ok {
				undecided = why
				break
			}
			if res {
				mistaken = append(mistaken, fmt.Sprintf("%q", rune(c)))
			}
		}
		switch {
		case undecided != "":
			r.Unknown(rule, construct, p.Pos(helper.Pos()), "cannot evaluate "+load.FuncName(helper)+" over the name characters of the lexer grammar: "+undecided)
		case len(mistaken) > 0:
			sort.Strings(mistaken)
			r.Bad(rule, construct, p.Pos(helper.Pos()), "a name continued by "+strings.Join(mistaken, ", ")+" is taken for the shorter name: these are name characters of the lexer grammar (IDENTIFIER / EXTENDED_IDENTIFIER) but the finder treats them as the end of the name")
		default:
			r.OK(rule, construct, p.Pos(helper.Pos()), "abstract-evaluation", fmt.Sprintf("%s rejects a continuation by each of the %d name characters of the lexer grammar", load.FuncName(helper), len(chars)))
		}
	}
	// scope of the relation finder
	if fn := p.Func("utils", "GetRelationLineNumber"); fn != nil {
		if len(fn.Params) >= 3 {
			r.OK(rule, "finder-scope:GetRelationLineNumber", p.Pos(fn.Pos()), "signature", "the relation finder receives the enclosing type")
		} else {
			r.Bad(rule, "finder-scope:GetRelationLineNumber", p.Pos(fn.Pos()), "the relation finder searches `define <relation>` in the whole file without regard to the type: a same-named relation of an earlier type is returned")
		}
	}
}

// blanksNormalised: the subject of the prefix comparison in the helper derives from strings.Join(strings.Fields…(line), …)
// (or the helper uses package regexp). Returns "" when it does, else what is wrong.
func blanksNormalised(helper *ssa.Function) string {
	var derives func(v ssa.Value, depth int) bool
	derives = func(v ssa.Value, depth int) bool {
		if depth > 8 {
			return false
		}
		switch x := v.(type) {
		case *ssa.Call:
			cal := x.Common().StaticCallee()
			if cal == nil || cal.Pkg == nil {
				return false
			}
			switch cal.Pkg.Pkg.Path() + "." + cal.Name() {
			case "strings.Fields", "strings.FieldsFunc":
				return true
			case "strings.Join", "strings.TrimSpace", "strings.TrimLeft", "strings.TrimRight", "strings.ToLower":
				return derives(x.Common().Args[0], depth+1)
			}
		case *ssa.Phi:
			for _, e := range x.Edges {
				if derives(e, depth+1) {
					return true
				}
			}
		case *ssa.Extract:
			return derives(x.Tuple, depth+1)
		}
		return false
	}
	found := false
	for _, b := range helper.Blocks {
		for _, in := range b.Instrs {
			call, ok := in.(*ssa.Call)
			if !ok {
				continue
			}
			cal := call.Common().StaticCallee()
			if cal == nil || cal.Pkg == nil {
				continue
			}
			if cal.Pkg.Pkg.Path() == "regexp" {
				return ""
			}
			if cal.Pkg.Pkg.Path() == "strings" && (cal.Name() == "CutPrefix" || cal.Name() == "HasPrefix" || cal.Name() == "TrimPrefix") {
				found = true
				if !derives(call.Common().Args[0], 0) {
					return "the line is compared with the literal 'keyword name' (one space): the lexer accepts any run of spaces, tabs and form feeds between a keyword and a name, so 'type  user' or 'define\tviewer' is not found and the error is reported at line 0, column 0"
				}
			}
		}
	}
	if !found {
		return "no prefix comparison found in " + helper.Name()
	}
	return ""
}

// LineEndsAgree (R9.1n): the comment pre-pass works line by line, and a trailing comment is cut off up to the end of
// the line. Its lines are the pieces between its separator (pp.LineSeparator); the lexer's lines end at every
// alternative of NEWLINE. A character that ends a line for the lexer all by itself (and is not a blank) but does
// not separate lines for the pre-pass makes the cut run across the lexer's lines: what is written there is deleted
// before the parser sees it, and a structural violation in it is never reported.
func LineEndsAgree(r *oblig.Report, rule string, lg *g4.Grammar, pp *PrePass) {
	if lg == nil || pp == nil || pp.LineSeparator == "" {
		r.Unknown(rule, "line-ends:anchor", "-", "lexer grammar or pre-pass separator not available")
		return
	}
	lits := func(name string) map[rune]bool {
		out := map[rune]bool{}
		if rl := lg.ByName[name]; rl != nil {
			g4.Walk(rl.Body, func(n g4.Node) {
				if l, ok := n.(*g4.Lit); ok {
					for _, c := range l.S {
						out[c] = true
					}
				}
			})
		}
		return out
	}
	nl, ws := lits("NEWLINE"), lits("WHITESPACE")
	if len(nl) == 0 {
		r.Unknown(rule, "line-ends:anchor", "OpenFGALexer.g4", "lexer rule NEWLINE has no literal")
		return
	}
	var cs []string
	for c := range nl {
		cs = append(cs, string(c))
	}
	sort.Strings(cs)
	for _, c := range cs {
		construct := fmt.Sprintf("line-ends:%q", c)
		switch {
		case strings.Contains(pp.LineSeparator, c):
			r.OK(rule, construct, "OpenFGALexer.g4", "separator", "the pre-pass splits there too")
		case ws[[]rune(c)[0]]:
			r.OK(rule, construct, "OpenFGALexer.g4", "blank", "also a blank of the lexer: inside a line it is lexed as whitespace")
		default:
			r.Bad(rule, construct, "OpenFGALexer.g4", fmt.Sprintf("the lexer ends a line at a lone %q (NEWLINE), the pre-pass splits only at %q: a trailing ' #' comment on a line that ends in %q is cut off up to the next %q, together with every line of the lexer in between — duplicate relations, mixed operators, a second header written there are accepted unseen", c, pp.LineSeparator, c, pp.LineSeparator))
		}
	}
}

// TrimCoversBlanks (R9.1t): the grammar has no place for a WHITESPACE token in front of EOF, so a blank that is left at
// the end of the last line makes the parser reject the document. Every blank of the lexer that is not itself a line
// end (space, tab), and the carriage return of CRLF files, belongs to the set the pre-pass trims from the end of each
// line.
func TrimCoversBlanks(r *oblig.Report, rule string, lg *g4.Grammar, pp *PrePass) {
	if lg == nil || pp == nil {
		r.Unknown(rule, "trim-covers:anchor", "-", "lexer grammar or pre-pass not available")
		return
	}
	lits := func(name string) map[rune]bool {
		out := map[rune]bool{}
		if rl := lg.ByName[name]; rl != nil {
			g4.Walk(rl.Body, func(n g4.Node) {
				if l, ok := n.(*g4.Lit); ok {
					for _, c := range l.S {
						out[c] = true
					}
				}
			})
		}
		return out
	}
	trimSet := strings.Join(pp.TrimCutSets, "")
	ws, nl := lits("WHITESPACE"), lits("NEWLINE")
	want := map[rune]bool{'\r': true}
	for c := range ws {
		if !nl[c] {
			want[c] = true
		}
	}
	var cs []string
	for c := range want {
		cs = append(cs, string(c))
	}
	sort.Strings(cs)
	if len(ws) == 0 {
		r.Unknown(rule, "trim-covers:anchor", "OpenFGALexer.g4", "lexer rule WHITESPACE has no literal")
		return
	}
	for _, c := range cs {
		construct := fmt.Sprintf("trim-covers:%q", c)
		if strings.Contains(trimSet, c) {
			r.OK(rule, construct, "OpenFGALexer.g4", "cut-set", fmt.Sprintf("trimmed from the end of every line (guaranteed cut set %q)", trimSet))
		} else {
			r.Bad(rule, construct, "OpenFGALexer.g4", fmt.Sprintf("%q is a blank of the lexer (or the CR of a CRLF line end) but is not in the set the pre-pass trims from the end of a line (%q): at the end of the last line it reaches the parser as a token in front of EOF and the document is rejected", c, trimSet))
		}
	}
}
