package transformer_test

import (
	"strings"
	"testing"

	"google.golang.org/protobuf/encoding/protojson"
	"google.golang.org/protobuf/proto"

	"github.com/openfga/language/pkg/go/transformer"
)

// huntC14StripComments removes comments the way the DSL defines them (and the way ParseDSL does):
// a line whose first non-blank character is '#' is a comment line, and ' #' starts a trailing comment.
func huntC14StripComments(dsl string) string {
	out := []string{}

	for _, line := range strings.Split(dsl, "\n") {
		if strings.HasPrefix(strings.TrimLeft(line, " "), "#") {
			continue
		}

		out = append(out, strings.TrimRight(strings.Split(line, " #")[0], " \r"))
	}

	return strings.Join(out, "\n")
}

// A module file whose name contains a line feed (a legal file name on Linux, and ModuleFile.Name is an
// arbitrary caller string). The name is copied verbatim into the '# module:, file:' comment, so the
// comment ends at the line feed and the rest of the name becomes DSL text.
func TestHuntC14NewlineInFileName(t *testing.T) {
	fileName := "a.fga\ntype injected"

	model, err := transformer.TransformModuleFilesToModel([]transformer.ModuleFile{
		{Name: fileName, Contents: "module core\n\ntype user\n"},
	}, "1.2")
	if err != nil {
		t.Fatalf("building the modular model failed: %v", err)
	}

	jsonModel, _ := protojson.Marshal(model)

	plain, err := transformer.TransformJSONProtoToDSL(model)
	if err != nil {
		t.Fatalf("plain transform failed: %v", err)
	}

	withSource, err := transformer.TransformJSONProtoToDSL(model, transformer.WithIncludeSourceInformation(true))
	if err != nil {
		t.Fatalf("source-info transform failed: %v", err)
	}

	stripped := huntC14StripComments(withSource)
	if stripped != plain {
		t.Errorf("C14: stripping comments from the source-info output must give the plain output\n"+
			"model (JSON): %s\nplain output:\n%q\nsource-info output:\n%q\nsource-info output with comments stripped:\n%q",
			jsonModel, plain, withSource, stripped)
	}

	plainModel, plainErr := transformer.TransformDSLToProto(plain)
	sourceModel, sourceErr := transformer.TransformDSLToProto(withSource)

	switch {
	case plainErr != nil:
		t.Fatalf("plain output does not parse: %v", plainErr)
	case sourceErr != nil:
		t.Errorf("C14: both outputs must parse to the same model; plain parses, source-info output fails: %v", sourceErr)
	case !proto.Equal(plainModel, sourceModel):
		plainJSON, _ := protojson.Marshal(plainModel)
		sourceJSON, _ := protojson.Marshal(sourceModel)
		t.Errorf("C14: both outputs must parse to the same model\nplain output parses to:       %s\nsource-info output parses to: %s",
			plainJSON, sourceJSON)
	}
}
