package graph

import (
	"fmt"
	"math"
	"strings"
	"testing"
	"time"

	"github.com/openfga/language/pkg/go/transformer"
)

// huntC08ChainModel builds a VALID schema 1.1 model of about 34*n bytes:
//
//	type t
//	  relations
//	    define p: [t]
//	    define c0: c1
//	    define c1: c2
//	    ...
//	    define c<n-1>: c<n>
//	    define c<n>: [user] or c0 from p or c1 from p ... or c<n-1> from p
//
// i.e. a chain of n computed relations whose last element closes n tuple cycles back to every element of the chain.
func huntC08ChainModel(n int) string {
	var sb strings.Builder
	sb.WriteString("model\n  schema 1.1\ntype user\ntype t\n  relations\n    define p: [t]\n")
	for i := 0; i < n; i++ {
		fmt.Fprintf(&sb, "    define c%d: c%d\n", i, i+1)
	}
	fmt.Fprintf(&sb, "    define c%d: [user]", n)
	for j := 0; j < n; j++ {
		fmt.Fprintf(&sb, " or c%d from p", j)
	}
	sb.WriteString("\n")
	return sb.String()
}

func TestHuntC08WeightedGraphBuildIsQuartic(t *testing.T) {
	sizes := []int{30, 60, 120}
	times := make([]time.Duration, len(sizes))
	lens := make([]int, len(sizes))

	for idx, n := range sizes {
		dsl := huntC08ChainModel(n)
		lens[idx] = len(dsl)

		model, err := transformer.TransformDSLToProto(dsl)
		if err != nil {
			t.Fatalf("the generated model must be syntactically valid: %v", err)
		}

		best := time.Duration(math.MaxInt64)
		for rep := 0; rep < 2; rep++ {
			done := make(chan error, 1)
			start := time.Now()
			go func() {
				_, err := NewWeightedAuthorizationModelGraphBuilder().Build(model)
				done <- err
			}()
			select {
			case err := <-done:
				if err != nil {
					t.Fatalf("n=%d: the model is valid, Build returned %v", n, err)
				}
			case <-time.After(120 * time.Second):
				t.Fatalf("n=%d (%d bytes of DSL): WeightedAuthorizationModelGraphBuilder.Build did not return within 120s", n, len(dsl))
			}
			if d := time.Since(start); d < best {
				best = d
			}
		}
		times[idx] = best
		t.Logf("n=%d  DSL bytes=%d  Build time=%v", n, len(dsl), best)
	}

	// input length grows 4x from sizes[0] to sizes[2]; a quadratic bound allows the work to grow 16x.
	growth := float64(times[2]) / float64(times[0])
	exponent := math.Log(growth) / math.Log(float64(lens[2])/float64(lens[0]))
	if exponent > 2.5 {
		t.Fatalf("C08 violated: WeightedAuthorizationModelGraphBuilder.Build on the valid model\n%s\n(shown for n=3; measured for n=%v, DSL lengths %v bytes) took %v: "+
			"the input grew %.1fx and the work grew %.0fx, i.e. work ~ length^%.2f; "+
			"the property requires the work to be bounded by a quadratic function of the input length (at most ~%.0fx here)",
			huntC08ChainModel(3), sizes, lens, times, float64(lens[2])/float64(lens[0]), growth, exponent,
			math.Pow(float64(lens[2])/float64(lens[0]), 2))
	}
}
