package graph

import (
	"errors"
	"testing"

	language "github.com/openfga/language/pkg/go/transformer"
)

// Relations whose only edges lead back into their own tuple cycle can reach no terminal user type, yet are accepted
// (with an empty weight map).
func TestHuntC05NoTerminalTypeBehindTupleCycle(t *testing.T) {
	inputs := []string{
		`model
  schema 1.1
type user
type doc
  relations
    define a: [doc#a]
`,
		`model
  schema 1.1
type user
type doc
  relations
    define parent: [doc]
    define a: a from parent
`,
		`model
  schema 1.1
type user
type doc
  relations
    define a: [doc#b]
    define b: [doc#a]
`,
	}
	for _, dsl := range inputs {
		model, err := language.TransformDSLToProto(dsl)
		if err != nil {
			t.Fatalf("the DSL does not parse: %v", err)
		}
		g, err := NewWeightedAuthorizationModelGraphBuilder().Build(model)
		if err == nil {
			n, _ := g.GetNodeByID("doc#a")
			t.Errorf("input:\n%s\nobserved: Build returned no error; node doc#a has weights %v (no user type at all)\n"+
				"required: an error wrapping ErrInvalidModel / ErrTupleCycle / ErrModelCycle, because relation doc#a can reach no terminal user type", dsl, n.GetWeights())
			continue
		}
		if !errors.Is(err, ErrModelCycle) && !errors.Is(err, ErrTupleCycle) && !errors.Is(err, ErrInvalidModel) {
			t.Errorf("input:\n%s\nobserved: %v, which wraps none of the three sentinel errors", dsl, err)
		}
	}
}
