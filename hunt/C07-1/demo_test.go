package transformer_test

import (
	"testing"

	"google.golang.org/protobuf/encoding/protojson"

	"github.com/openfga/language/pkg/go/transformer"
	"github.com/openfga/language/pkg/go/utils"
)

// Property C07: merging succeeds only if no type is defined twice. Here 'type user' is defined in a.fga and
// again in b.fga; because b.fga also contains 'extend type user', the second definition is taken for an
// extension (the extension set is keyed by type name only) and the duplicate goes unreported.
func TestHuntC07DuplicateTypeHiddenByExtend(t *testing.T) {
	files := []transformer.ModuleFile{
		{Name: "a.fga", Contents: "module a\ntype user"},
		{Name: "b.fga", Contents: "module b\ntype user\n  relations\n    define z: [user]\nextend type user\n  relations\n    define x: [user]"},
	}

	model, err := transformer.TransformModuleFilesToModel(files, "1.2")
	if err != nil {
		return // required behaviour: duplicate type definition user, naming b.fga
	}

	out, _ := protojson.Marshal(model)
	mod, _ := utils.GetModuleForObjectTypeRelation(model.GetTypeDefinitions()[0], "z")

	t.Fatalf("input:\n--- a.fga\n%s\n--- b.fga\n%s\nobserved: merge succeeded with model %s\n"+
		"(relation z, declared by the second 'type user' in module b, is reported as module %q)\n"+
		"expected: an error 'duplicate type definition user' naming b.fga, because type user is defined in a.fga and in b.fga",
		files[0].Contents, files[1].Contents, out, mod)
}

// Same cause, other direction: a conflict-free single file that defines a type and extends it is rejected,
// because the base definition is also taken for an extension and so no base type remains.
func TestHuntC07SelfExtendRejected(t *testing.T) {
	files := []transformer.ModuleFile{
		{Name: "a.fga", Contents: "module a\ntype user\nextend type user\n  relations\n    define x: [user]"},
	}

	_, err := transformer.TransformModuleFilesToModel(files, "1.2")
	if err != nil {
		t.Fatalf("input:\n--- a.fga\n%s\nobserved: error %v\nexpected: success (one definition of user, the extend targets a type "+
			"defined in some file, relation x contributed once)", files[0].Contents, err)
	}
}
