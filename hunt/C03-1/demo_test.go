package transformer_test

import (
	"testing"

	"google.golang.org/protobuf/encoding/protojson"
	"google.golang.org/protobuf/proto"

	"github.com/openfga/language/pkg/go/transformer"
)

// Property C03: every grammatical layout parses, to exactly the model written.
// A tab after the last token of the last line, followed by the final line end, is grammatical:
// the lexer's NEWLINE token is  WHITESPACE? ('\r'? '\n' ...) ...  so "type doc\t\n<EOF>" is
// TYPE WHITESPACE IDENTIFIER NEWLINE EOF, which main (... NEWLINE? EOF) derives. The same tab
// on any earlier line is accepted, and a trailing space on the last line is accepted.
func TestHuntC03TrailingTabOnLastLine(t *testing.T) {
	reference := "model\n  schema 1.1\ntype user\ntype doc\n"
	want, err := transformer.TransformDSLToProto(reference)
	if err != nil {
		t.Fatalf("reference layout must parse: %v", err)
	}

	for _, input := range []string{
		"model\n  schema 1.1\ntype user\t\ntype doc\n",   // trailing tab on an inner line: accepted
		"model\n  schema 1.1\ntype user\ntype doc \n",    // trailing space on the last line: accepted
		"model\n  schema 1.1\ntype user\ntype doc\t\n",   // trailing tab on the last line: rejected
		"model\n  schema 1.1\ntype user\ntype doc\t\r\n", // same with CRLF
	} {
		got, err := transformer.TransformDSLToProto(input)
		if err != nil {
			t.Errorf("input %q\n  observed: error %v\n  required: accepted without error and equal to the model of %q",
				input, err, reference)

			continue
		}

		if !proto.Equal(got, want) {
			t.Errorf("input %q\n  observed: %s\n  required: %s", input, protojson.Format(got), protojson.Format(want))
		}
	}
}
