package transformer_test

import (
	"math"
	"strings"
	"testing"
	"time"

	"github.com/openfga/language/pkg/go/transformer"
)

// A run of form feed characters (0x0C) after an otherwise valid three line model. Form feed is matched both by the
// WHITESPACE lexer rule and, as a line terminator, by the recursive NEWLINE lexer rule.
func huntC08FormFeedInput(n int) string {
	return "model\n  schema 1.1\ntype user" + strings.Repeat("\f", n)
}

func TestHuntC08FormFeedRunLexesInCubicTime(t *testing.T) {
	sizes := []int{100, 200, 400}
	times := make([]time.Duration, len(sizes))
	lens := make([]int, len(sizes))

	for idx, n := range sizes {
		input := huntC08FormFeedInput(n)
		lens[idx] = len(input)

		done := make(chan error, 1)
		start := time.Now()
		go func() {
			_, err := transformer.TransformDSLToProto(input)
			done <- err
		}()
		select {
		case <-done:
		case <-time.After(120 * time.Second):
			t.Fatalf("C08 violated: TransformDSLToProto(%q + %d x \"\\f\") (%d bytes) did not return within 120s",
				"model\n  schema 1.1\ntype user", n, len(input))
		}
		times[idx] = time.Since(start)
		t.Logf("%d form feeds, input bytes=%d, TransformDSLToProto time=%v", n, len(input), times[idx])
	}

	growth := float64(times[2]) / float64(times[0])
	lenGrowth := float64(lens[2]) / float64(lens[0])
	exponent := math.Log(growth) / math.Log(lenGrowth)

	if exponent > 2.5 || times[2] > 2*time.Second {
		t.Fatalf("C08 violated: TransformDSLToProto(%q + n x \"\\f\") for n=%v (input lengths %v bytes) took %v: "+
			"the input grew %.1fx and the work grew %.0fx (work ~ length^%.2f), and %d bytes stall the caller for %v; "+
			"the property requires the work to be bounded by a quadratic function of the input length, so that a few hundred bytes cannot stall the caller",
			"model\n  schema 1.1\ntype user", sizes, lens, times, lenGrowth, growth, exponent, lens[2], times[2])
	}
}
