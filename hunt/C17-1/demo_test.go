package graph

import (
	"testing"

	openfgav1 "github.com/openfga/api/proto/openfga/v1"
	"google.golang.org/protobuf/encoding/protojson"
)

// A restriction that names a *type* called "doc#x" (no relation) shares its node label with the
// *relation* x of type doc. The node is created first as a SpecificType node, so the pure computed
// cycle doc#x <-> doc#y is drawn with rewrite edges and is not reported as a compile-time cycle.
func TestHuntC17LabelCollisionHidesComputedCycle(t *testing.T) {
	const cycleOnly = `{"schema_version":"1.1","type_definitions":[
 {"type":"doc","relations":{"x":{"computedUserset":{"relation":"y"}},"y":{"computedUserset":{"relation":"x"}}}}
]}`
	const withCollision = `{"schema_version":"1.1","type_definitions":[
 {"type":"a","relations":{"r":{"this":{}}},"metadata":{"relations":{"r":{"directly_related_user_types":[{"type":"doc#x"}]}}}},
 {"type":"doc","relations":{"x":{"computedUserset":{"relation":"y"}},"y":{"computedUserset":{"relation":"x"}}}}
]}`

	build := func(js string) *AuthorizationModelGraph {
		m := &openfgav1.AuthorizationModel{}
		if err := protojson.Unmarshal([]byte(js), m); err != nil {
			t.Fatal(err)
		}
		g, err := NewAuthorizationModelGraph(m)
		if err != nil {
			t.Fatal(err)
		}
		return g
	}

	control := build(cycleOnly)
	if !control.GetCycles().hasCyclesAtCompileTime {
		t.Fatalf("control: doc#x <-> doc#y alone should be a compile-time cycle")
	}

	g := build(withCollision)
	node, err := g.GetNodeByLabel("doc#x")
	if err != nil {
		t.Fatal(err)
	}
	cycles := g.GetCycles()
	if node.NodeType() != SpecificTypeAndRelation || !cycles.hasCyclesAtCompileTime {
		t.Fatalf("input model:\n%s\nrelations doc#x and doc#y form a cycle of pure computed usersets, "+
			"expected hasCyclesAtCompileTime=true and node doc#x of type SpecificTypeAndRelation(1);\n"+
			"observed GetCycles()=%+v, GetNodeByLabel(\"doc#x\").NodeType()=%d, DOT (no dashed/computed edges):\n%s",
			withCollision, cycles, node.NodeType(), g.GetDOT())
	}
}
