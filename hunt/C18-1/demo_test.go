package validation

import (
	"testing"
	"unicode"
)

// Property C18: "no accepted type, relation or id contains whitespace".
// Go's regexp (RE2) \s is exactly [\t\n\f\r ]: it does not contain the vertical tab U+000B
// (which Java's and JS's \s do contain) nor any non-ASCII white space (U+0085, U+00A0, U+2028, U+3000 ...).
func TestHuntC18WhitespaceAccepted(t *testing.T) {
	inputs := []string{"\v", "a\vb", "\u0085", "\u00a0", "\u2028", "\u3000"}
	for _, s := range inputs {
		ws := false
		for _, r := range s {
			if unicode.IsSpace(r) {
				ws = true
			}
		}
		if !ws {
			t.Fatalf("bad test input %q", s)
		}
		if ValidateType(s) {
			t.Errorf("ValidateType(%q) = true; the property requires that no accepted type contains whitespace", s)
		}
		if ValidateRelation(s) {
			t.Errorf("ValidateRelation(%q) = true; the property requires that no accepted relation contains whitespace", s)
		}
		if ValidateObjectID(s) {
			t.Errorf("ValidateObjectID(%q) = true; the property requires that no accepted id contains whitespace", s)
		}
		if u := s + ":" + s + "#" + s; ValidateUser(u) {
			t.Errorf("ValidateUser(%q) = true; type, id and relation all contain whitespace", u)
		}
	}
}
