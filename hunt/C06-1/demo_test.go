package graph

import (
	"fmt"
	"sort"
	"strings"
	"testing"

	language "github.com/openfga/language/pkg/go/transformer"
)

// Property C06: "... always gives the same verdict (accepted or rejected) ...; reordering the operands of a union or
// intersection changes no relation's weights."
//
// The two models below differ only in the order of the operands of the union that defines document#admin.
// document#admin -> document#member -> document#admin is a cycle made of rewrites only (a model cycle).
func huntC06Build(t *testing.T, dsl string) string {
	t.Helper()
	model := language.MustTransformDSLToProto(dsl)
	wg, err := NewWeightedAuthorizationModelGraphBuilder().Build(model)
	if err != nil {
		return "REJECTED: " + err.Error()
	}
	labels := make([]string, 0)
	for label, node := range wg.GetNodes() {
		if node.GetNodeType() == SpecificTypeAndRelation {
			labels = append(labels, label)
		}
	}
	sort.Strings(labels)
	var sb strings.Builder
	sb.WriteString("ACCEPTED:")
	for _, label := range labels {
		node, _ := wg.GetNodeByID(label)
		keys := make([]string, 0)
		for k := range node.GetWeights() {
			keys = append(keys, k)
		}
		sort.Strings(keys)
		sb.WriteString(" " + label + "{")
		for _, k := range keys {
			fmt.Fprintf(&sb, "%s=%d ", k, node.GetWeights()[k])
		}
		sb.WriteString("}")
	}
	return sb.String()
}

func TestHuntC06UnionOperandOrderChangesVerdict(t *testing.T) {
	const head = `model
  schema 1.1
type user
type document
  relations
    define parent: [document]
    define member: admin
`
	ttuFirst := head + "    define admin: [user] or member from parent or member\n"
	computedFirst := head + "    define admin: [user] or member or member from parent\n"

	got1 := huntC06Build(t, ttuFirst)
	got2 := huntC06Build(t, computedFirst)
	if got1 != got2 {
		t.Fatalf("the same model with the operands of one union in another order gives another verdict\n"+
			"--- model 1 ---\n%s\nobserved: %s\n--- model 2 (union operands reordered) ---\n%s\nobserved: %s\n"+
			"required: the same verdict and the same relation weights for both", ttuFirst, got1, computedFirst, got2)
	}
}
