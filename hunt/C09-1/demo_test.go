package transformer_test

import (
	"strings"
	"testing"

	"github.com/openfga/language/pkg/go/transformer"
)

// A document whose lines end in a bare carriage return is understood by the grammar
// (NEWLINE matches '\r'), and a duplicate relation in it is reported. As soon as one line
// carries a trailing " # comment", the comment stripper of ParseDSL (which splits on "\n" only)
// throws away the rest of the document, and every structural violation after it is accepted.
func TestHuntC09CarriageReturnCommentHidesViolations(t *testing.T) {
	cr := func(s string) string { return strings.ReplaceAll(s, "\n", "\r") }

	// control: same document, no comment: the library sees the lines and rejects the duplicate
	control := cr("model\n  schema 1.1\ntype user\ntype doc\n  relations\n    define viewer: [user]\n    define viewer: [user]")
	if _, err := transformer.TransformDSLToProto(control); err == nil || !strings.Contains(err.Error(), "'viewer' is already defined in 'doc'") {
		t.Fatalf("control: CR-terminated document with a duplicate relation should be rejected as a duplicate, got err=%v", err)
	}

	cases := []struct{ name, dsl string }{
		{"relation defined twice in a type", "model\n  schema 1.1\ntype user # the subject\ntype doc\n  relations\n    define viewer: [user]\n    define viewer: [user]"},
		{"operators mixed at one level", "model\n  schema 1.1\ntype user # the subject\ntype doc\n  relations\n    define a: [user]\n    define b: a or a and a"},
		{"empty type-restriction list", "model\n  schema 1.1\ntype user # the subject\ntype doc\n  relations\n    define a: []"},
		{"extend in a non-modular model", "model\n  schema 1.1\ntype user # the subject\nextend type doc\n  relations\n    define a: [user]"},
		{"condition defined twice", "model\n  schema 1.1\ntype user # the subject\ncondition c(x: int) {\n  x > 1\n}\ncondition c(x: int) {\n  x > 2\n}"},
		{"both headers", "model\n  schema 1.1 # version\nmodule m\ntype user"},
	}
	for _, c := range cases {
		dsl := cr(c.dsl)
		model, err := transformer.TransformDSLToProto(dsl)
		if err == nil {
			js, _ := transformer.TransformDSLToJSON(dsl)
			t.Errorf("%s: input %q\n  observed: accepted, err=nil, model=%s (%d type definitions, %d conditions)\n  required: non-nil error and no model",
				c.name, dsl, js, len(model.GetTypeDefinitions()), len(model.GetConditions()))
		}
		m2, _, err2 := transformer.TransformModularDSLToProto(dsl)
		if err2 == nil && m2 != nil && c.name != "both headers" {
			t.Errorf("%s: TransformModularDSLToProto also accepts %q", c.name, dsl)
		}
	}
}
