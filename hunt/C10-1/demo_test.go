package graph

import (
	"testing"

	language "github.com/openfga/language/pkg/go/transformer"
)

// Property C10: "operators point to their operands in source order" and the edges "correspond one-to-one to the
// rewrite", for all accepted models "including ... repeated operands".
// A tuple-to-userset operand that is repeated under one operator is silently dropped (HasEdge de-duplication in
// parseTupleToUserset), while a repeated computed operand is kept: the operator ends up with fewer edges than operands.
func TestHuntC10RepeatedTTUOperandDropped(t *testing.T) {
	cases := []struct {
		name, viewer string
		operands     int
	}{
		{"intersection", "member from parent and member from parent", 2},
		{"union", "member from parent or editor or member from parent", 3},
		// control: the same shape with a computed userset keeps one edge per operand
		{"control-computed", "editor or editor", 2},
	}
	for _, c := range cases {
		dsl := `model
  schema 1.1
type user
type folder
  relations
    define member: [user]
type doc
  relations
    define parent: [folder]
    define editor: [user]
    define viewer: ` + c.viewer + `
`
		model := language.MustTransformDSLToProto(dsl)
		g, err := NewWeightedAuthorizationModelGraphBuilder().Build(model)
		if err != nil {
			t.Fatalf("%s: model not accepted: %v", c.name, err)
		}
		rel := g.GetEdges()["doc#viewer"]
		if len(rel) != 1 || rel[0].GetTo().GetNodeType() != OperatorNode {
			t.Fatalf("%s: doc#viewer should point to one operator node, got %d edges", c.name, len(rel))
		}
		opEdges := g.GetEdges()[rel[0].GetTo().GetUniqueLabel()]
		var got []string
		for _, e := range opEdges {
			got = append(got, e.GetTo().GetUniqueLabel()+"/"+e.GetTuplesetRelation())
		}
		if len(opEdges) != c.operands {
			t.Errorf("input: define viewer: %s\n  the %s operator has %d operands in the rewrite, but %d outgoing edge(s) in the graph: %v\n  required: one edge per operand, in source order",
				c.viewer, rel[0].GetTo().GetLabel(), c.operands, len(opEdges), got)
		}
	}
}
