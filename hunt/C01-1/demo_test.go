package transformer_test

import (
	"strings"
	"testing"

	"github.com/openfga/language/pkg/go/transformer"
)

// A CEL line comment ("// ...") inside a condition body is lexed on the hidden channel, so it is
// dropped from the stored expression while the blanks in front of it stay. The printer writes that
// expression verbatim; the line cleaner of ParseDSL then strips the (now line-final) blanks on the
// second parse. The model obtained from the rendering therefore differs from the first model in the
// interior of the expression, not only in its surrounding whitespace.
func TestHuntC01CommentLeavesInteriorTrailingBlanks(t *testing.T) {
	t.Parallel()

	inputs := []string{
		// blanks before a trailing comment on an interior line
		"model\n  schema 1.1\ntype user\ncondition c(x: int) {\n  x < 1 // note\n  && x > 0\n}",
		// a comment-only interior line leaves a blank-only line behind
		"model\n  schema 1.1\ntype user\ncondition c(x: int) {\n  x < 1\n  // note\n  && x > 0\n}",
	}

	for _, dsl := range inputs {
		if strings.Contains(dsl, "#") {
			t.Fatalf("input outside the quantifier")
		}

		// in-memory path
		m1, err := transformer.TransformDSLToProto(dsl)
		if err != nil {
			t.Fatalf("input not accepted: %v", err)
		}

		t1, err := transformer.TransformJSONProtoToDSL(m1)
		if err != nil {
			t.Fatalf("rendering failed: %v", err)
		}

		m2, err := transformer.TransformDSLToProto(t1)
		if err != nil {
			t.Fatalf("rendering not accepted: %v", err)
		}

		e1 := strings.TrimSpace(m1.GetConditions()["c"].GetExpression())
		e2 := strings.TrimSpace(m2.GetConditions()["c"].GetExpression())

		if e1 != e2 {
			t.Errorf("in-memory path: DSL -> model -> DSL -> model is not the identity\n"+
				"input     = %q\nrendering = %q\n"+
				"expression of first model  (surrounding whitespace trimmed) = %q\n"+
				"expression of second model (surrounding whitespace trimmed) = %q\n"+
				"required: equal", dsl, t1, e1, e2)
		}

		// JSON string path
		j1, err := transformer.TransformDSLToJSON(dsl)
		if err != nil {
			t.Fatalf("input not accepted: %v", err)
		}

		jt1, err := transformer.TransformJSONStringToDSL(j1)
		if err != nil {
			t.Fatalf("rendering failed: %v", err)
		}

		j2, err := transformer.TransformDSLToJSON(*jt1)
		if err != nil {
			t.Fatalf("rendering not accepted: %v", err)
		}

		jm1, _ := transformer.LoadJSONStringToProto(j1)
		jm2, _ := transformer.LoadJSONStringToProto(j2)
		je1 := strings.TrimSpace(jm1.GetConditions()["c"].GetExpression())
		je2 := strings.TrimSpace(jm2.GetConditions()["c"].GetExpression())

		if je1 != je2 {
			t.Errorf("JSON path: expression of first model %q, of the model parsed from its rendering %q; required: equal (input %q)",
				je1, je2, dsl)
		}
	}
}
