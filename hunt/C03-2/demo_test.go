package transformer_test

import (
	"strings"
	"testing"

	"github.com/openfga/language/pkg/go/transformer"
)

func huntC03StripWS(s string) string {
	return strings.NewReplacer(" ", "", "\t", "", "\n", "", "\r", "").Replace(s)
}

// Property C03: the model written is the model read, "same conditions ..., expression text compared
// modulo whitespace"; "Layout and comments never change the result".
// A condition expression may contain a CEL string literal (lexer token STRING). When that literal
// contains " #" (or, in a triple-quoted literal, a line that starts with '#'), the comment
// stripping pre-pass of ParseDSL cuts the literal: either the model is rejected, or - worse - it is
// accepted with a different expression.
func TestHuntC03HashInsideStringLiteral(t *testing.T) {
	head := "model\n  schema 1.1\ntype user\ntype doc\n  relations\n    define v: [user with c]\n"

	cases := []struct{ name, expr string }{
		{"single line literal", "x == \"a #b\""},
		{"triple quoted literal, space-hash", "x == \"\"\"a #b\nz\"\"\""},
		{"triple quoted literal, line starting with hash", "x == \"\"\"a\n# b\nz\"\"\""},
	}
	for _, c := range cases {
		input := head + "condition c(x: string) {\n  " + c.expr + "\n}\n"

		model, err := transformer.TransformDSLToProto(input)
		if err != nil {
			t.Errorf("%s: input %q\n  observed: error %v\n  required: accepted, condition c with expression %q",
				c.name, input, err, c.expr)

			continue
		}

		got := model.GetConditions()["c"].GetExpression()
		if huntC03StripWS(got) != huntC03StripWS(c.expr) {
			t.Errorf("%s: input %q\n  observed: accepted silently with expression %q\n  required: expression %q (modulo whitespace)",
				c.name, input, got, c.expr)
		}
	}
}
