package transformer_test

import (
	"strings"
	"testing"

	"github.com/openfga/language/pkg/go/transformer"
)

// textAt returns the source text from the zero-based (line, column) to the end of that line.
func huntC15TextAt(src string, line, column int) string {
	lines := strings.Split(src, "\n")
	if line < 0 || line >= len(lines) {
		return "<line out of range>"
	}

	runes := []rune(lines[line])
	if column < 0 || column > len(runes) {
		return "<column out of range>"
	}

	return string(runes[column:])
}

// pointsAt accepts the value itself or the value behind an opening quote.
func huntC15PointsAt(text, value string) bool {
	return strings.HasPrefix(text, value) ||
		strings.HasPrefix(text, "'"+value) || strings.HasPrefix(text, "\""+value)
}

// C15: "the reported zero-based line and column of each property point at that value in the source text".
// For a value carrying an anchor or a tag, or written as a block scalar, the position is that of the
// anchor / tag / block indicator, not of the value.
func TestHuntC15PositionOfAnchoredTaggedBlockValues(t *testing.T) {
	inputs := []string{
		"schema: '1.2'\ncontents:\n  - &core core.fga\n",
		"schema: '1.2'\ncontents:\n  - !!str core.fga\n",
		"schema: !!str 1.2\ncontents:\n  - core.fga\n",
		"schema: '1.2'\ncontents:\n  - |-\n    core.fga\n",
	}

	for _, src := range inputs {
		modFile, err := transformer.TransformModFile(src)
		if err != nil {
			t.Errorf("input %q: expected to be accepted, got %v", src, err)

			continue
		}

		if got := huntC15TextAt(src, modFile.Schema.Line, modFile.Schema.Column); !huntC15PointsAt(got, modFile.Schema.Value) {
			t.Errorf("input %q: schema %q reported at line=%d column=%d, but the source text there is %q (property: position points at the value)",
				src, modFile.Schema.Value, modFile.Schema.Line, modFile.Schema.Column, got)
		}

		for _, item := range modFile.Contents.Value {
			if got := huntC15TextAt(src, item.Line, item.Column); !huntC15PointsAt(got, item.Value) {
				t.Errorf("input %q: path %q reported at line=%d column=%d, but the source text there is %q (property: position points at the value)",
					src, item.Value, item.Line, item.Column, got)
			}
		}
	}
}
