package graph

import (
	"testing"

	openfgav1 "github.com/openfga/api/proto/openfga/v1"
)

// Property C10: "exactly one node per type, per defined relation, ... per wildcard restriction".
// Nodes are keyed by a label built by string concatenation (type, type+"#"+relation, type+":*") and GetOrAddNode returns
// whatever node already has that label, whatever its kind. Through the proto / JSON API (the DSL cannot spell these
// names) a type can be called "doc#viewer" or "user:*"; Build accepts the model and the type shares its node with the
// relation / wildcard of the same spelling.
func TestHuntC10LabelCollisionTypeVsRelation(t *testing.T) {
	this := &openfgav1.Userset{Userset: &openfgav1.Userset_This{}}
	model := &openfgav1.AuthorizationModel{
		SchemaVersion: "1.1",
		TypeDefinitions: []*openfgav1.TypeDefinition{
			{Type: "user"},
			{
				Type:      "doc",
				Relations: map[string]*openfgav1.Userset{"viewer": this},
				Metadata: &openfgav1.Metadata{Relations: map[string]*openfgav1.RelationMetadata{
					"viewer": {DirectlyRelatedUserTypes: []*openfgav1.RelationReference{
						{Type: "user", RelationOrWildcard: &openfgav1.RelationReference_Wildcard{Wildcard: &openfgav1.Wildcard{}}},
					}},
				}},
			},
			{Type: "doc#viewer"}, // a third type, no relations
			{Type: "user:*"},     // a fourth type, no relations
		},
	}
	g, err := NewWeightedAuthorizationModelGraphBuilder().Build(model)
	if err != nil {
		t.Fatalf("model not accepted: %v", err)
	}
	// required: 4 type nodes + 1 relation node + 1 wildcard node
	types, relations, wildcards := 0, 0, 0
	var labels []string
	for label, n := range g.GetNodes() {
		labels = append(labels, label)
		switch n.GetNodeType() {
		case SpecificType:
			types++
		case SpecificTypeAndRelation:
			relations++
		case SpecificTypeWildcard:
			wildcards++
		}
	}
	if types != 4 || relations != 1 || wildcards != 1 {
		t.Errorf("input: types user, doc (viewer: [user:*]), \"doc#viewer\", \"user:*\"\n  observed %d nodes %v: %d type nodes, %d relation nodes, %d wildcard nodes\n  required: 4 type nodes, 1 relation node, 1 wildcard node (one node per type, per defined relation, per wildcard restriction)",
			len(labels), labels, types, relations, wildcards)
	}
}
