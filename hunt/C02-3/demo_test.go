package transformer_test

import (
	"testing"

	openfgav1 "github.com/openfga/api/proto/openfga/v1"
	"google.golang.org/protobuf/encoding/protojson"

	"github.com/openfga/language/pkg/go/transformer"
)

// C02: "any expression text the DSL can carry (no '}' and no '#')": a CEL line comment (// ...) inside a condition
// expression is accepted by the DSL lexer, but it is lexed onto the hidden channel, so reading the produced DSL
// back silently drops it: the expression of the re-parsed model differs from the input expression.
func TestHuntC02ConditionExpressionCommentLost(t *testing.T) {
	inputs := map[string]string{
		"trailing comment": "x < 10 // ten is the limit",
		"comment between":  "x < 10 // ten is the limit\n  && x > 1",
	}

	for name, expression := range inputs {
		t.Run(name, func(t *testing.T) {
			model := &openfgav1.AuthorizationModel{}
			if err := protojson.Unmarshal([]byte(`{"schema_version":"1.1","type_definitions":[{"type":"user"},{"type":"doc","relations":{"viewer":{"this":{}}},"metadata":{"relations":{"viewer":{"directly_related_user_types":[{"type":"user","condition":"c"}]}}}}],"conditions":{"c":{"name":"c","parameters":{"x":{"type_name":"TYPE_NAME_INT"}}}}}`), model); err != nil {
				t.Fatalf("bad test input: %v", err)
			}

			model.GetConditions()["c"].Expression = expression

			dsl, err := transformer.TransformJSONProtoToDSL(model)
			if err != nil {
				t.Fatalf("conversion failed: %v", err)
			}

			back, err := transformer.TransformDSLToProto(dsl)
			if err != nil {
				t.Fatalf("expression %q: produced DSL does not parse (so the DSL cannot carry it; not a finding):\n%s\n%v", expression, dsl, err)
			}

			if got := back.GetConditions()["c"].GetExpression(); got != expression {
				t.Fatalf("input condition expression: %q\nproduced DSL (parses without error):\n%s\nexpression after parsing the DSL back: %q\n"+
					"property C02 requires the input model back (title: 'loses nothing'); the expression has no '}' and no '#'",
					expression, dsl, got)
			}
		})
	}
}
