package graph

import (
	"errors"
	"testing"

	language "github.com/openfga/language/pkg/go/transformer"
)

// 'a' is '[user] but not banned from parent': its only user type is user. 'e' is [emp]. The intersection 'a and e' has no
// user type common to both operands, but the subtracted tuple to userset spans two parent types (two edges) and only the
// last edge of an exclusion is treated as the subtracted side, so type emp leaks into a and the intersection is accepted.
func TestHuntC05ExclusionSubtractLeaksTypesIntoIntersection(t *testing.T) {
	const dsl = `model
  schema 1.1
type user
type emp
type grp
  relations
    define banned: [emp]
type doc
  relations
    define parent: [doc, grp]
    define banned: [emp]
    define a: [user] but not banned from parent
    define e: [emp]
    define c: a and e
`
	model, err := language.TransformDSLToProto(dsl)
	if err != nil {
		t.Fatalf("the DSL does not parse: %v", err)
	}
	g, err := NewWeightedAuthorizationModelGraphBuilder().Build(model)
	if err == nil {
		a, _ := g.GetNodeByID("doc#a")
		c, _ := g.GetNodeByID("doc#c")
		t.Fatalf("input:\n%s\nobserved: Build returned no error; weights of doc#a = %v (emp comes from the subtracted operand), weights of doc#c = %v\n"+
			"required: an error wrapping ErrInvalidModel: the intersection 'a and e' has no user type common to all operands (a yields only user, e yields only emp)",
			dsl, a.GetWeights(), c.GetWeights())
	}
	if !errors.Is(err, ErrModelCycle) && !errors.Is(err, ErrTupleCycle) && !errors.Is(err, ErrInvalidModel) {
		t.Fatalf("observed: %v, which wraps none of the three sentinel errors", err)
	}
}
