package transformer_test

import (
	"testing"

	"github.com/openfga/language/pkg/go/transformer"
)

// A modular model (module set on the type definitions) that contains two type definitions with the same
// name, module and file but different relations. Only expressible through the JSON / proto API.
// The comparator used to order type definitions returns 0 for the pair and the sort is stable, so the
// output follows the input order of the type definitions.
func TestHuntC14DuplicateTypeOrderDependence(t *testing.T) {
	first := `{"type":"doc","relations":{"a":{"computedUserset":{"relation":"x"}}},"metadata":{"module":"m","source_info":{"file":"f.fga"}}}`
	second := `{"type":"doc","relations":{"b":{"computedUserset":{"relation":"y"}}},"metadata":{"module":"m","source_info":{"file":"f.fga"}}}`

	orderOne := `{"schema_version":"1.2","type_definitions":[` + first + `,` + second + `]}`
	orderTwo := `{"schema_version":"1.2","type_definitions":[` + second + `,` + first + `]}`

	for _, includeSource := range []bool{false, true} {
		dslOne, err := transformer.TransformJSONStringToDSL(orderOne, transformer.WithIncludeSourceInformation(includeSource))
		if err != nil {
			t.Fatalf("transform of order one failed: %v", err)
		}

		dslTwo, err := transformer.TransformJSONStringToDSL(orderTwo, transformer.WithIncludeSourceInformation(includeSource))
		if err != nil {
			t.Fatalf("transform of order two failed: %v", err)
		}

		if *dslOne != *dslTwo {
			t.Errorf("C14: for modular models the DSL must be byte-identical across any order of the type definitions "+
				"(includeSourceInformation=%v)\ninput, order one: %s\ninput, order two: %s\noutput for order one:\n%s\noutput for order two:\n%s",
				includeSource, orderOne, orderTwo, *dslOne, *dslTwo)
		}
	}
}
