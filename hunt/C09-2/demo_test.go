package transformer_test

import (
	"testing"

	"github.com/openfga/language/pkg/go/transformer"
)

// conditionExpression is ((...)|~(RBRACE))*: a condition body runs up to the next '}' whatever is in
// between, so a second declaration of the same condition (or type / relation declarations) that
// follows a body whose '}' is missing is swallowed as expression text; no duplicate is reported and
// the declarations are not in the model.
func TestHuntC09UnclosedConditionBodySwallowsDeclarations(t *testing.T) {
	dsl := "model\n  schema 1.1\ntype user\ncondition c(x: int) {\n  x > 1\ncondition c(x: int) {\n  x > 2\n}"
	model, err := transformer.TransformDSLToProto(dsl)
	if err == nil {
		t.Errorf("input %q\n  observed: accepted, err=nil, %d condition(s), c.expression=%q\n  required: condition 'c' is declared twice -> non-nil error and no model",
			dsl, len(model.GetConditions()), model.GetConditions()["c"].GetExpression())
	}

	dsl2 := "model\n  schema 1.1\ntype user\ncondition c(x: int) {\n  x > 1\ntype doc\n  relations\n    define a: [user]\n    define a: [user]\n}"
	model2, err2 := transformer.TransformDSLToProto(dsl2)
	if err2 == nil {
		t.Errorf("input %q\n  observed: accepted, err=nil, %d type definition(s) (type doc and both 'define a' lines are not in the model), c.expression=%q\n  required: rejected, or every declaration reflected in the model",
			dsl2, len(model2.GetTypeDefinitions()), model2.GetConditions()["c"].GetExpression())
	}
}
