package transformer_test

import (
	"testing"

	openfgav1 "github.com/openfga/api/proto/openfga/v1"
	"google.golang.org/protobuf/encoding/protojson"

	"github.com/openfga/language/pkg/go/transformer"
	"github.com/openfga/language/pkg/go/utils"
)

// C02: a relation whose rewrite is a single direct assignment in first position, but whose metadata carries no
// type restrictions (absent metadata, empty list, or any schema 1.0 model), is converted without error into
// "define viewer: []", which the DSL grammar rejects (relationDefDirectAssignment needs >= 1 restriction).
func TestHuntC02DirectAssignmentWithoutTypeRestrictions(t *testing.T) {
	inputs := map[string]string{
		"metadata absent":         `{"schema_version":"1.1","type_definitions":[{"type":"user"},{"type":"doc","relations":{"viewer":{"this":{}}}}]}`,
		"restriction list empty":  `{"schema_version":"1.1","type_definitions":[{"type":"user"},{"type":"doc","relations":{"viewer":{"this":{}}},"metadata":{"relations":{"viewer":{"directly_related_user_types":[]}}}}]}`,
		"union, this not first":   `{"schema_version":"1.1","type_definitions":[{"type":"user"},{"type":"doc","relations":{"editor":{"computedUserset":{"relation":"viewer"}},"viewer":{"union":{"child":[{"computedUserset":{"relation":"editor"}},{"this":{}}]}}}}]}`,
	}

	for name, input := range inputs {
		t.Run(name, func(t *testing.T) {
			model := &openfgav1.AuthorizationModel{}
			if err := protojson.Unmarshal([]byte(input), model); err != nil {
				t.Fatalf("bad test input: %v", err)
			}

			rewrite := model.GetTypeDefinitions()[1].GetRelations()["viewer"]
			if !utils.IsRelationAssignable(rewrite) {
				t.Fatalf("bad test input: viewer should be assignable")
			}

			dsl, err := transformer.TransformJSONProtoToDSL(model)
			if err != nil {
				t.Logf("conversion failed (not the observed behaviour): %v", err)

				return
			}

			back, err := transformer.TransformDSLToProto(dsl)
			if err != nil {
				t.Fatalf("input model:\n%s\nconversion to DSL SUCCEEDED (one direct assignment, placeable first) and produced:\n%s\n"+
					"but the produced DSL does not parse: %v\n"+
					"property C02 requires: when conversion succeeds, parsing the produced DSL gives back the input model",
					input, dsl, err)
			}

			if got := back.GetTypeDefinitions()[1].GetRelations()["viewer"]; !utils.IsRelationAssignable(got) {
				t.Fatalf("input model:\n%s\nDSL:\n%s\nviewer came back as %v (not assignable), input was %v",
					input, dsl, got, rewrite)
			}

		})
	}
}
