package graph

import (
	"errors"
	"testing"

	language "github.com/openfga/language/pkg/go/transformer"
)

// A tuple-free rewrite cycle (a -> union -> b -> a, only "or" and computed usersets) that shares its nodes with a
// tuple cycle (a -> union -[doc#b]-> b -> a) is accepted when the depth-first search meets the tuple edge first.
func TestHuntC05CrossEdgeIntoPendingTupleCycle(t *testing.T) {
	const accepted = `model
  schema 1.1
type user
type doc
  relations
    define a: [user, doc#b] or b
    define b: a
`
	// the same model with the two relations renamed (a->z, b->y), so that the search starts from the other relation
	const renamed = `model
  schema 1.1
type user
type doc
  relations
    define z: [user, doc#y] or y
    define y: z
`
	for _, dsl := range []string{accepted, renamed} {
		model, err := language.TransformDSLToProto(dsl)
		if err != nil {
			t.Fatalf("the DSL does not parse: %v", err)
		}
		_, err = NewWeightedAuthorizationModelGraphBuilder().Build(model)
		if err == nil {
			t.Errorf("input:\n%s\nobserved: Build returned no error\nrequired: an error wrapping ErrModelCycle (or ErrTupleCycle / ErrInvalidModel): "+
				"'define a: ... or b' and 'define b: a' form a cycle of rewrites that needs no tuple to be traversed", dsl)
			continue
		}
		if !errors.Is(err, ErrModelCycle) && !errors.Is(err, ErrTupleCycle) && !errors.Is(err, ErrInvalidModel) {
			t.Errorf("input:\n%s\nobserved: %v, which wraps none of the three sentinel errors", dsl, err)
		}
	}
}
