package graph

import (
	"fmt"
	"math"
	"strings"
	"testing"
	"time"

	"github.com/openfga/language/pkg/go/transformer"
)

// huntC08MutualTTUModel builds a VALID schema 1.1 model in which k relations of one type refer to each other through
// a tuple to userset (every cycle goes through a tuple, so these are legal "tuple cycles"):
//
//	type t
//	  relations
//	    define p: [t]
//	    define r0: [user] or r1 from p or r2 from p ...
//	    define r1: [user] or r0 from p or r2 from p ...
func huntC08MutualTTUModel(k int) string {
	var sb strings.Builder
	sb.WriteString("model\n  schema 1.1\ntype user\ntype t\n  relations\n    define p: [t]\n")
	for i := 0; i < k; i++ {
		fmt.Fprintf(&sb, "    define r%d: [user]", i)
		for j := 0; j < k; j++ {
			if j != i {
				fmt.Fprintf(&sb, " or r%d from p", j)
			}
		}
		sb.WriteString("\n")
	}
	return sb.String()
}

func TestHuntC08GetCyclesIsExponential(t *testing.T) {
	sizes := []int{7, 9, 11}
	times := make([]time.Duration, len(sizes))
	lens := make([]int, len(sizes))

	for idx, k := range sizes {
		dsl := huntC08MutualTTUModel(k)
		lens[idx] = len(dsl)

		model, err := transformer.TransformDSLToProto(dsl)
		if err != nil {
			t.Fatalf("the generated model must be syntactically valid: %v", err)
		}
		if _, err := NewWeightedAuthorizationModelGraphBuilder().Build(model); err != nil {
			t.Fatalf("the generated model must be a valid model: %v", err)
		}

		g, err := NewAuthorizationModelGraph(model)
		if err != nil {
			t.Fatal(err)
		}

		done := make(chan CycleInformation, 1)
		start := time.Now()
		go func() { done <- g.GetCycles() }()
		select {
		case <-done:
		case <-time.After(180 * time.Second):
			t.Fatalf("C08 violated: AuthorizationModelGraph.GetCycles() on the valid %d byte model with %d mutually referring relations did not return within 180s:\n%s", len(dsl), k, dsl)
		}
		times[idx] = time.Since(start)
		t.Logf("k=%d relations, DSL bytes=%d, GetCycles time=%v", k, len(dsl), times[idx])
	}

	growth := float64(times[2]) / float64(times[0])
	lenGrowth := float64(lens[2]) / float64(lens[0])
	exponent := math.Log(growth) / math.Log(lenGrowth)

	if exponent > 2.5 {
		t.Fatalf("C08 violated: AuthorizationModelGraph.GetCycles() on the valid model\n%s\n(shown for k=3 relations; measured for k=%v, DSL lengths %v bytes) took %v: "+
			"the input grew %.1fx and the work grew %.0fx (as if work ~ length^%.1f; each extra relation multiplies the work by about k); "+
			"the property requires the work of every public graph entry point to be bounded by a quadratic function of the input length (at most ~%.0fx here)",
			huntC08MutualTTUModel(3), sizes, lens, times, lenGrowth, growth, exponent, lenGrowth*lenGrowth)
	}
}
