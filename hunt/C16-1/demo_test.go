package transformer_test

import (
	"errors"
	"strings"
	"testing"

	"github.com/openfga/language/pkg/go/transformer"
)

// A relation conflict raised for "extend type folder" is reported on the line of the same-named
// relation of another type that stands earlier in the same file.
func TestHuntC16SameNamedRelationOfOtherType(t *testing.T) {
	core := "module core\n" +
		"type user\n" +
		"type folder\n" +
		"  relations\n" +
		"    define viewer: [user]\n" +
		"type doc\n" +
		"  relations\n" +
		"    define owner: [user]\n"
	ext := "module ext\n" + // 0
		"extend type doc\n" + // 1
		"  relations\n" + // 2
		"    define viewer: [user]\n" + // 3  fine: doc has no viewer
		"extend type folder\n" + // 4
		"  relations\n" + // 5
		"    define viewer: [user]\n" // 6  conflict: folder already has viewer

	const wantLine = 6

	_, err := transformer.TransformModuleFilesToModel([]transformer.ModuleFile{
		{Name: "core.fga", Contents: core},
		{Name: "ext.fga", Contents: ext},
	}, "1.2")
	if err == nil {
		t.Fatalf("expected a conflict error")
	}

	var multi *transformer.ModuleValidationMultipleError
	if !errors.As(err, &multi) || len(multi.Errors) != 1 {
		t.Fatalf("expected exactly one module error, got %v", err)
	}

	var single *transformer.ModuleTransformationSingleError
	if !errors.As(multi.Errors[0], &single) {
		t.Fatalf("unexpected error type %T", multi.Errors[0])
	}

	lines := strings.Split(ext, "\n")
	if single.File != "ext.fga" || single.Line.Start != wantLine {
		t.Fatalf("input ext.fga:\n%s\nerror %q\nobserved file=%s line=%d (text %q)\nrequired file=ext.fga line=%d (text %q): "+
			"the conflicting declaration is folder's viewer, not the same-named relation of type doc",
			ext, single.Msg, single.File, single.Line.Start, lines[single.Line.Start], wantLine, lines[wantLine])
	}
}
