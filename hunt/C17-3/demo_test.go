package graph

import (
	"fmt"
	"strings"
	"testing"
	"time"

	language "github.com/openfga/language/pkg/go/transformer"
)

// A valid DSL model: type t has 13 relations each directly assignable from the usersets of the
// other 12 (a complete digraph), and type doc has the pure computed cycle x <-> y.
// GetCycles enumerates every elementary cycle (about 1.4e9 for K13) and keeps them all in memory
// before classifying any, so the compile-time cycle is never reported.
func TestHuntC17GetCyclesNeverReports(t *testing.T) {
	const n = 13
	var sb strings.Builder
	sb.WriteString("model\n  schema 1.1\ntype user\ntype doc\n  relations\n    define x: y\n    define y: x\ntype t\n  relations\n")
	for i := 0; i < n; i++ {
		sb.WriteString(fmt.Sprintf("    define r%d: [user", i))
		for j := 0; j < n; j++ {
			if j != i {
				sb.WriteString(fmt.Sprintf(", t#r%d", j))
			}
		}
		sb.WriteString("]\n")
	}
	dsl := sb.String()
	model := language.MustTransformDSLToProto(dsl)
	g, err := NewAuthorizationModelGraph(model)
	if err != nil {
		t.Fatal(err)
	}

	done := make(chan CycleInformation, 1)
	go func() { done <- g.GetCycles() }()

	const limit = 8 * time.Second
	select {
	case ci := <-done:
		if !ci.hasCyclesAtCompileTime {
			t.Fatalf("compile-time cycle doc#x <-> doc#y not reported: %+v", ci)
		}
	case <-time.After(limit):
		t.Fatalf("input model (DSL):\n%s\nrelations doc#x and doc#y form a cycle of pure computed usersets, expected GetCycles() to report "+
			"hasCyclesAtCompileTime=true;\nobserved: GetCycles() did not return within %v (it enumerates and stores all ~1.4e9 elementary "+
			"cycles of the 13-relation complete userset digraph; n=10 takes ~1s, each extra relation multiplies time and memory by ~n)", dsl, limit)
	}
}
