package transformer_test

import (
	"strings"
	"testing"

	"github.com/openfga/language/pkg/go/transformer"
)

// C15: "the reported zero-based line and column of each property point at that value in the source text".
// The YAML scanner counts U+0085 (NEL), U+2028 and U+2029 as line breaks, so one such character anywhere
// before a value (here: at the end of a comment, and inside a quoted path) shifts every later line number.
func TestHuntC15LineNumberAfterUnicodeLineBreak(t *testing.T) {
	inputs := []string{
		"# fga.mod\u0085\nschema: '1.2'\ncontents:\n  - core.fga\n",
		"schema: '1.2'\ncontents: [\"a\u2028b.fga\", core.fga]\n",
	}

	for _, src := range inputs {
		modFile, err := transformer.TransformModFile(src)
		if err != nil {
			t.Errorf("input %q: expected to be accepted, got %v", src, err)

			continue
		}

		lines := strings.Split(src, "\n")

		check := func(what, value string, line, column int) {
			wantLine := -1
			for i, l := range lines {
				if strings.Contains(l, value) {
					wantLine = i
				}
			}

			got := "<no such line>"
			if line < len(lines) {
				got = "<no such column>"
				if r := []rune(lines[line]); column <= len(r) {
					got = string(r[column:])
				}
			}

			if line != wantLine {
				t.Errorf("input %q: %s %q reported at line=%d column=%d, but it is on line %d of the source text; text at the reported position: %q",
					src, what, value, line, column, wantLine, got)
			}
		}

		check("schema", modFile.Schema.Value, modFile.Schema.Line, modFile.Schema.Column)

		for _, item := range modFile.Contents.Value {
			if item.Value == "core.fga" {
				check("path", item.Value, item.Line, item.Column)
			}
		}
	}
}
