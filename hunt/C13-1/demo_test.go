package graph_test

import (
	"sort"
	"strings"
	"testing"

	"github.com/openfga/language/pkg/go/graph"
	"github.com/openfga/language/pkg/go/transformer"
)

// Property C13: "the result of a call depends only on its arguments".
// The weighted graph builder names every operator node "<operator>:<ULID>", the ULID being drawn from the
// process-global, time-seeded, monotonic entropy source of oklog/ulid. That label is part of the result:
// it is the text of the error returned for an invalid model, and it is the key of the node in GetNodes()
// and the prefix "R#..." of weight keys for a valid one. Two calls with the very same model therefore
// return different results.
func TestHuntC13WeightedBuildResultDependsOnGlobalULID(t *testing.T) {
	const invalid = `model
  schema 1.1

type user

type group

type doc
  relations
    define a: [user]
    define b: [group]
    define c: a and b
`
	model := transformer.MustTransformDSLToProto(invalid)

	_, err1 := graph.NewWeightedAuthorizationModelGraphBuilder().Build(model)
	_, err2 := graph.NewWeightedAuthorizationModelGraphBuilder().Build(model)

	if err1 == nil || err2 == nil {
		t.Fatalf("expected both calls to reject the model, got %v and %v", err1, err2)
	}

	if err1.Error() != err2.Error() {
		t.Errorf("input (same *AuthorizationModel passed to both calls):\n%s\n"+
			"observed: call 1 returned error %q\n          call 2 returned error %q\n"+
			"required: the result of Build depends only on its argument, so both errors must read the same",
			invalid, err1.Error(), err2.Error())
	}

	const valid = `model
  schema 1.1

type user

type doc
  relations
    define a: [user]
    define b: [user]
    define c: a or b
`
	model = transformer.MustTransformDSLToProto(valid)

	keys := func() string {
		wg, err := graph.NewWeightedAuthorizationModelGraphBuilder().Build(model)
		if err != nil {
			t.Fatal(err)
		}

		labels := []string{}
		for label := range wg.GetNodes() {
			labels = append(labels, label)
		}

		sort.Strings(labels)

		return strings.Join(labels, " ")
	}

	first, second := keys(), keys()
	if first != second {
		t.Errorf("input (same *AuthorizationModel passed to both calls):\n%s\n"+
			"observed: GetNodes() keys of call 1: %s\n          GetNodes() keys of call 2: %s\n"+
			"required: the same graph (same node keys) for the same argument",
			valid, first, second)
	}
}
