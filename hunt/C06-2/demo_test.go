package graph

import (
	"fmt"
	"sort"
	"strings"
	"testing"

	language "github.com/openfga/language/pkg/go/transformer"
)

// Property C06: "Weighted graph is a deterministic function of the model ... the same weights and wildcard sets on every
// node and edge ...". The two models below are the same model; only the order in which the two parent types are listed in
// the type restriction of document#parent differs (a type restriction is a set: [folder, org] and [org, folder] allow the
// same tuples).
func huntC06Weights(t *testing.T, dsl string) string {
	t.Helper()
	model := language.MustTransformDSLToProto(dsl)
	wg, err := NewWeightedAuthorizationModelGraphBuilder().Build(model)
	if err != nil {
		return "REJECTED: " + err.Error()
	}
	labels := make([]string, 0)
	for label, node := range wg.GetNodes() {
		if node.GetNodeType() == SpecificTypeAndRelation {
			labels = append(labels, label)
		}
	}
	sort.Strings(labels)
	var sb strings.Builder
	sb.WriteString("ACCEPTED:")
	for _, label := range labels {
		node, _ := wg.GetNodeByID(label)
		keys := make([]string, 0)
		for k := range node.GetWeights() {
			keys = append(keys, k)
		}
		sort.Strings(keys)
		sb.WriteString(" " + label + "{")
		for _, k := range keys {
			fmt.Fprintf(&sb, "%s=%d ", k, node.GetWeights()[k])
		}
		sb.WriteString("}")
	}
	return sb.String()
}

func TestHuntC06ExclusionSubtrahendOverTwoParentTypes(t *testing.T) {
	const tmpl = `model
  schema 1.1
type user
type employee
type folder
  relations
    define blocked: [user]
type org
  relations
    define blocked: [employee]
type document
  relations
    define parent: %s
    define viewer: [user]
    define allowed: viewer but not blocked from parent
`
	m1 := fmt.Sprintf(tmpl, "[folder, org]")
	m2 := fmt.Sprintf(tmpl, "[org, folder]")
	got1 := huntC06Weights(t, m1)
	got2 := huntC06Weights(t, m2)
	if got1 != got2 {
		t.Fatalf("the weights of document#allowed depend on the order in which the parent types are listed\n"+
			"--- model 1 ---\n%s\nobserved: %s\n--- model 2 (parent: [org, folder]) ---\n%s\nobserved: %s\n"+
			"required: the same weights for both (only user can be in 'viewer but not ...'; employee must not appear)", m1, got1, m2, got2)
	}
}
