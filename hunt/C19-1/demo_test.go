package transformer_test

import (
	"strings"
	"testing"
	"unicode"

	"github.com/antlr4-go/antlr/v4"

	parser "github.com/openfga/language/pkg/go/gen"
	"github.com/openfga/language/pkg/go/transformer"
)

type huntC19Errs struct {
	*antlr.DefaultErrorListener
	msgs []string
}

func (e *huntC19Errs) SyntaxError(_ antlr.Recognizer, _ interface{}, line, col int, msg string, _ antlr.RecognitionException) {
	e.msgs = append(e.msgs, msg)
}

// The line cleaning the JS package (pkg/js/transformer/dsltojson.ts parseDSL: trimStart()[0]=="#", split(" #")[0].trimEnd())
// and the Java package (DslToJsonTransformer.cleanLine: ^\s*$ , ^\s*#.*$ , split(" #")[0].stripTrailing()) apply before the
// text reaches the (identical) generated automaton.
func huntC19CleanLikeJSAndJava(dsl string) string {
	lines := strings.Split(dsl, "\n")
	for i, l := range lines {
		t := strings.TrimLeftFunc(l, unicode.IsSpace)
		if t == "" || t[0] == '#' {
			lines[i] = ""
			continue
		}
		lines[i] = strings.TrimRightFunc(strings.Split(l, " #")[0], unicode.IsSpace)
	}
	return strings.Join(lines, "\n")
}

func huntC19SyntaxErrors(text string) []string {
	el := &huntC19Errs{DefaultErrorListener: antlr.NewDefaultErrorListener()}
	lx := parser.NewOpenFGALexer(antlr.NewInputStream(text))
	lx.RemoveErrorListeners()
	lx.AddErrorListener(el)
	p := parser.NewOpenFGAParser(antlr.NewCommonTokenStream(lx, antlr.TokenDefaultChannel))
	p.RemoveErrorListeners()
	p.AddErrorListener(el)
	p.Main()
	return el.msgs
}

func TestHuntC19SamePackagesAcceptSameTexts(t *testing.T) {
	for _, dsl := range []string{
		"model\n  schema 1.1\ntype user\t",      // trailing TAB on the last line
		"model\n  schema 1.1\ntype user\n\t# c", // TAB-indented comment as last line
	} {
		_, goErrs := transformer.ParseDSL(dsl) // what the Go package does
		goAccepts := goErrs.Errors == nil
		other := huntC19SyntaxErrors(huntC19CleanLikeJSAndJava(dsl)) // what the JS / Java packages hand to the same automaton
		otherAccepts := len(other) == 0
		if goAccepts != otherAccepts {
			t.Errorf("C19: input %q: Go package accepts=%v (errors: %v) but the JS/Java packages' pre-cleaning + the same generated automaton accepts=%v (errors: %v); "+
				"the property requires all three language packages to accept the same DSL texts",
				dsl, goAccepts, goErrs.Errors, otherAccepts, other)
		}
	}
}
