package graph

import (
	"testing"

	openfgav1 "github.com/openfga/api/proto/openfga/v1"
	"google.golang.org/protobuf/encoding/protojson"
)

// A model (JSON / proto API only) that has a type literally named "a:*" next to a type "a".
// Types are drawn in sorted order, so the node "a:*" is first created as a plain SpecificType node for the
// type "a:*". The public restriction [a:*] of b#r (type "a", wildcard) asks GetOrAddNode for the same label and
// is handed that SpecificType node: it is never seeded with wildcard "a", so nothing that reaches the
// restriction lists "a".
func TestHuntC11WildcardNodeLabelCollision(t *testing.T) {
	const input = `{"schema_version":"1.1","type_definitions":[
 {"type":"a"},
 {"type":"a:*"},
 {"type":"b","relations":{"r":{"this":{}}},
  "metadata":{"relations":{"r":{"directly_related_user_types":[{"type":"a","wildcard":{}}]}}}}
]}`
	model := &openfgav1.AuthorizationModel{}
	if err := protojson.Unmarshal([]byte(input), model); err != nil {
		t.Fatal(err)
	}
	wg, err := NewWeightedAuthorizationModelGraphBuilder().Build(model)
	if err != nil {
		t.Skipf("model not accepted (property only speaks about accepted graphs): %v", err)
	}
	node, ok := wg.GetNodeByID("b#r")
	if !ok {
		t.Fatal("no node b#r")
	}
	edges, _ := wg.GetEdgesFromNode(node)
	if len(edges) != 1 {
		t.Fatalf("expected one edge from b#r, got %d", len(edges))
	}
	edge := edges[0]
	t.Logf("input: %s", input)
	t.Logf("edge b#r -> %s (target node type %v), edge weights %v", edge.GetTo().GetUniqueLabel(), edge.GetTo().GetNodeType(), edge.GetWeights())
	if got := node.GetWildcards(); len(got) != 1 || got[0] != "a" {
		t.Errorf("node b#r is defined as [a:*] (public restriction on type a): property requires wildcards [a], observed %v\ninput: %s", got, input)
	}
	if got := edge.GetWildcards(); len(got) != 1 || got[0] != "a" {
		t.Errorf("edge b#r -> a:* goes into the 'a:*' restriction: property requires wildcards {a}, observed %v\ninput: %s", got, input)
	}
}
