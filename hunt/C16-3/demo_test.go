package transformer_test

import (
	"errors"
	"strings"
	"testing"

	"github.com/openfga/language/pkg/go/transformer"
)

// One module file declares type x twice. The first declaration is accepted and registered, the
// second one is rejected as "duplicate type definition x" - but the error is placed on the line of
// the first (accepted) declaration, because the lookup returns the first textual match in the file.
func TestHuntC16DuplicateTypeReportedOnEarlierDeclaration(t *testing.T) {
	contents := "module b\n" + // 0
		"type x\n" + // 1  accepted
		"type y\n" + // 2
		"type x\n" // 3  rejected: this is the conflicting declaration

	const wantLine = 3

	_, err := transformer.TransformModuleFilesToModel([]transformer.ModuleFile{
		{Name: "b.fga", Contents: contents},
	}, "1.2")
	if err == nil {
		t.Fatalf("expected a conflict error")
	}

	var multi *transformer.ModuleValidationMultipleError
	if !errors.As(err, &multi) || len(multi.Errors) != 1 {
		t.Fatalf("expected exactly one module error, got %v", err)
	}

	var single *transformer.ModuleTransformationSingleError
	if !errors.As(multi.Errors[0], &single) {
		t.Fatalf("unexpected error type %T", multi.Errors[0])
	}

	lines := strings.Split(contents, "\n")
	if single.File != "b.fga" || single.Line.Start != wantLine {
		t.Fatalf("input b.fga=%q error %q\nobserved file=%s line=%d (text %q, the declaration that was accepted)\n"+
			"required file=b.fga line=%d (text %q, the declaration the error was raised for)",
			contents, single.Msg, single.File, single.Line.Start, lines[single.Line.Start], wantLine, lines[wantLine])
	}
}
