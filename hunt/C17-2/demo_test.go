package graph

import (
	"testing"

	openfgav1 "github.com/openfga/api/proto/openfga/v1"
	"google.golang.org/protobuf/encoding/protojson"
)

// Two type definitions of the same name: the first holds the pure computed cycle x <-> y, the second
// adds a direct restriction [doc#y] on x. The multigraph now has two parallel lines doc#y -> doc#x
// (one computed, one direct); nodeListHasNonComputedEdge sees the direct one and classifies the
// only elementary cycle as "runtime", so the compile-time cycle is not reported.
func TestHuntC17ParallelLineHidesComputedCycle(t *testing.T) {
	const cycleOnly = `{"schema_version":"1.1","type_definitions":[
 {"type":"doc","relations":{"x":{"computedUserset":{"relation":"y"}},"y":{"computedUserset":{"relation":"x"}}}}
]}`
	const withParallel = `{"schema_version":"1.1","type_definitions":[
 {"type":"doc","relations":{"x":{"computedUserset":{"relation":"y"}},"y":{"computedUserset":{"relation":"x"}}}},
 {"type":"doc","relations":{"x":{"this":{}}},"metadata":{"relations":{"x":{"directly_related_user_types":[{"type":"doc","relation":"y"}]}}}}
]}`

	build := func(js string) *AuthorizationModelGraph {
		m := &openfgav1.AuthorizationModel{}
		if err := protojson.Unmarshal([]byte(js), m); err != nil {
			t.Fatal(err)
		}
		g, err := NewAuthorizationModelGraph(m)
		if err != nil {
			t.Fatal(err)
		}
		return g
	}

	if !build(cycleOnly).GetCycles().hasCyclesAtCompileTime {
		t.Fatalf("control: doc#x <-> doc#y alone should be a compile-time cycle")
	}

	g := build(withParallel)
	cycles := g.GetCycles()
	if !cycles.hasCyclesAtCompileTime {
		t.Fatalf("input model:\n%s\nthe graph contains the computed (dashed) lines doc#x -> doc#y and doc#y -> doc#x, "+
			"i.e. a cycle of pure computed usersets; expected hasCyclesAtCompileTime=true;\nobserved GetCycles()=%+v, DOT:\n%s",
			withParallel, cycles, g.GetDOT())
	}
}
