package transformer_test

import (
	"strings"
	"testing"

	"github.com/openfga/language/pkg/go/transformer"
)

// C15: "the reported zero-based line and column of each property point at that value in the source text".
// A manifest that starts with a UTF-8 byte order mark is accepted, but every position on its first line is
// one short: it is neither the rune offset nor the byte offset of the value in the text that was passed in.
func TestHuntC15PositionAfterByteOrderMark(t *testing.T) {
	src := "\ufeff{schema: '1.2', contents: [core.fga]}"

	modFile, err := transformer.TransformModFile(src)
	if err != nil {
		t.Fatalf("input %q: expected to be accepted, got %v", src, err)
	}

	check := func(what, value string, line, column int) {
		text := strings.Split(src, "\n")[line]
		wantRune := len([]rune(text[:strings.Index(text, value)]))
		wantByte := strings.Index(text, value)
		if value == "1.2" { // a quoted value is pointed at through its opening quote
			wantRune--
			wantByte--
		}

		if column == wantRune || column == wantByte {
			return
		}

		atRune := string([]rune(text)[column:])
		atByte := text[column:]
		t.Errorf("input %q: %s %q reported at line=%d column=%d; the value is at rune column %d (byte column %d); "+
			"text at the reported rune column is %q, at the reported byte column %q",
			src, what, value, line, column, wantRune, wantByte, atRune, atByte)
	}

	check("schema", modFile.Schema.Value, modFile.Schema.Line, modFile.Schema.Column)

	for _, item := range modFile.Contents.Value {
		check("path", item.Value, item.Line, item.Column)
	}
}
