package transformer_test

import (
	"testing"

	"google.golang.org/protobuf/encoding/protojson"

	"github.com/openfga/language/pkg/go/transformer"
)

// Property C07: merging succeeds only if every file parses as a module. A file with a 'model / schema' header is
// not a module. The merge only notices that when a type has no metadata (a type without relations) or when the
// file has a condition; a non-module file whose types all have relations (or that has no types at all) is accepted
// and its types are attributed to the empty module.
func TestHuntC07NonModuleFileAccepted(t *testing.T) {
	withRelations := "model\n  schema 1.1\ntype user\n  relations\n    define x: [user]"
	withoutRelations := "model\n  schema 1.1\ntype user"

	// control: the same file without the relation is rejected as 'file is not a module'
	if _, err := transformer.TransformModuleFilesToModel(
		[]transformer.ModuleFile{{Name: "a.fga", Contents: withoutRelations}}, "1.2"); err == nil {
		t.Fatalf("control: non-module file without relations was accepted")
	}

	files := []transformer.ModuleFile{
		{Name: "a.fga", Contents: withRelations},
		{Name: "b.fga", Contents: "module b\nextend type user\n  relations\n    define y: [user]"},
	}

	model, err := transformer.TransformModuleFilesToModel(files, "1.2")
	if err != nil {
		return // required behaviour: 'file is not a module' naming a.fga
	}

	out, _ := protojson.Marshal(model)

	t.Fatalf("input:\n--- a.fga\n%s\n--- b.fga\n%s\nobserved: merge succeeded; type user has module %q; model %s\n"+
		"expected: an error 'file is not a module' naming a.fga (as is returned for %q), because a.fga has a model header, not a module header",
		files[0].Contents, files[1].Contents, model.GetTypeDefinitions()[0].GetMetadata().GetModule(), out, withoutRelations)
}
