package transformer_test

import (
	"testing"

	"google.golang.org/protobuf/encoding/protojson"
	"google.golang.org/protobuf/proto"

	"github.com/openfga/language/pkg/go/transformer"
)

// Property C03: any layout the grammar allows is accepted.
// OpenFGAParser.g4 allows a line break before every condition parameter and before the closing
// parenthesis of the parameter list:
//   condition: ... LPAREN WHITESPACE? conditionParameter WHITESPACE? (COMMA WHITESPACE? conditionParameter WHITESPACE?)* NEWLINE? RPAREN ...
//   conditionParameter: NEWLINE? parameterName WHITESPACE? COLON WHITESPACE? parameterType;
// but no such layout is accepted.
func TestHuntC03ConditionParametersOnSeveralLines(t *testing.T) {
	head := "model\n  schema 1.1\ntype user\ntype doc\n  relations\n    define v: [user with c]\n"
	reference := head + "condition c(x: string, y: int) {\n  x == \"a\"\n}\n"

	want, err := transformer.TransformDSLToProto(reference)
	if err != nil {
		t.Fatalf("reference layout must parse: %v", err)
	}

	for _, input := range []string{
		head + "condition c(x: string, y: int\n) {\n  x == \"a\"\n}\n",
		head + "condition c(x: string,\n  y: int) {\n  x == \"a\"\n}\n",
		head + "condition c(\n  x: string,\n  y: int\n) {\n  x == \"a\"\n}\n",
	} {
		got, err := transformer.TransformDSLToProto(input)
		if err != nil {
			t.Errorf("input %q\n  observed: error %v\n  required: accepted without error and equal to the model of the one-line layout",
				input, err)

			continue
		}

		if !proto.Equal(got, want) {
			t.Errorf("input %q\n  observed: %s\n  required: %s", input, protojson.Format(got), protojson.Format(want))
		}
	}
}
