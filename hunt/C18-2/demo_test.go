package validation

import (
	"strings"
	"testing"
)

// Property C18: "Any string accepted as an object ... ; any accepted userset additionally has exactly one '#'
// followed by an accepted relation ... The documented length limits (... object 2..256) are enforced exactly".
// ValidateUserSet never applies RuleObject, so the object part of an accepted userset may have any length.
func TestHuntC18UserSetObjectLimit(t *testing.T) {
	object := "t:" + strings.Repeat("a", 255) // 257 characters: one over the object limit
	if ValidateObject(object) {
		t.Fatalf("precondition: ValidateObject of a %d-character object should be false", len(object))
	}
	userset := object + "#r"
	if ValidateUserSet(userset) {
		t.Errorf("ValidateUserSet(\"t:\"+255*\"a\"+\"#r\") = true although its object part (%d characters) is rejected by ValidateObject: the object limit 2..256 is not enforced for usersets", len(object))
	}
	if ValidateUser(userset) {
		t.Errorf("ValidateUser accepts the same string (object part %d characters > 256)", len(object))
	}
	huge := "t:" + strings.Repeat("a", 100000) + "#r"
	if ValidateUserSet(huge) {
		t.Errorf("ValidateUserSet accepts a userset whose object part has %d characters", len(huge)-2)
	}
}
