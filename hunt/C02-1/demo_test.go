package transformer_test

import (
	"testing"

	openfgav1 "github.com/openfga/api/proto/openfga/v1"
	"google.golang.org/protobuf/encoding/protojson"
	"google.golang.org/protobuf/proto"

	"github.com/openfga/language/pkg/go/transformer"
)

// C02: "conditions with all parameter types": a condition parameter of type TYPE_NAME_ANY (or a container whose
// generic type is itself a container) is converted without error into DSL that the DSL grammar rejects.
func TestHuntC02ConditionParamTypeAny(t *testing.T) {
	inputs := map[string]string{
		"param type any": `{"schema_version":"1.1","type_definitions":[{"type":"user"},{"type":"doc","relations":{"viewer":{"this":{}}},"metadata":{"relations":{"viewer":{"directly_related_user_types":[{"type":"user","condition":"c"}]}}}}],"conditions":{"c":{"name":"c","expression":"x == 1","parameters":{"x":{"type_name":"TYPE_NAME_ANY"}}}}}`,
		"param type list<list<string>>": `{"schema_version":"1.1","type_definitions":[{"type":"user"},{"type":"doc","relations":{"viewer":{"this":{}}},"metadata":{"relations":{"viewer":{"directly_related_user_types":[{"type":"user","condition":"c"}]}}}}],"conditions":{"c":{"name":"c","expression":"x.size() == 1","parameters":{"x":{"type_name":"TYPE_NAME_LIST","generic_types":[{"type_name":"TYPE_NAME_LIST","generic_types":[{"type_name":"TYPE_NAME_STRING"}]}]}}}}}`,
	}

	for name, input := range inputs {
		t.Run(name, func(t *testing.T) {
			model := &openfgav1.AuthorizationModel{}
			if err := protojson.Unmarshal([]byte(input), model); err != nil {
				t.Fatalf("bad test input: %v", err)
			}

			dsl, err := transformer.TransformJSONProtoToDSL(model)
			if err != nil {
				// An error would be an acceptable way of saying "not expressible"; the property wants
				// success because the only relation has one direct assignment in first position.
				t.Logf("conversion failed (not the observed behaviour): %v", err)

				return
			}

			back, err := transformer.TransformDSLToProto(dsl)
			if err != nil {
				t.Fatalf("input model:\n%s\nconversion to DSL SUCCEEDED and produced:\n%s\nbut the produced DSL does not parse: %v\n"+
					"property C02 requires: when conversion succeeds, parsing the produced DSL gives back the input model",
					input, dsl, err)
			}

			if !proto.Equal(back.GetConditions()["c"].GetParameters()["x"], model.GetConditions()["c"].GetParameters()["x"]) {
				t.Fatalf("input model:\n%s\nDSL:\n%s\nparameter x came back as %v, want %v",
					input, dsl, back.GetConditions()["c"].GetParameters()["x"], model.GetConditions()["c"].GetParameters()["x"])
			}
		})
	}
}
