package transformer_test

import (
	"errors"
	"strings"
	"testing"

	"github.com/openfga/language/pkg/go/transformer"
)

// The DSL grammar accepts any run of blanks or tabs between a keyword and the name
// (WHITESPACE: ( '\t' | ' ' | '\u000C')+). The line lookup for merge conflicts searches for the
// literal text "<keyword> <name>" with exactly one blank, finds nothing, and the error is placed on
// line 0 (the "module" header line).
func TestHuntC16ConflictLineLostWithOtherBlankLayout(t *testing.T) {
	core := "module core\n" +
		"type user\n" +
		"type folder\n" +
		"  relations\n" +
		"    define viewer: [user]\n" +
		"condition c(x: string) {\n" +
		"  x == \"a\"\n" +
		"}\n"

	cases := []struct {
		name     string
		contents string
		wantLine int
	}{
		{"duplicate type, two blanks", "module b\ntype x\ntype  user\n", 2},
		{"duplicate type, tab", "module b\ntype x\ntype\tuser\n", 2},
		{"relation conflict, two blanks", "module b\nextend type folder\n  relations\n    define  viewer: [user]\n", 3},
		{"missing extended type, two blanks", "module b\ntype x\nextend type  nope\n  relations\n    define viewer: [user]\n", 2},
		{"duplicate condition, two blanks", "module b\ntype x\ncondition  c(x: string) {\n  x == \"a\"\n}\n", 2},
	}

	for _, tc := range cases {
		_, err := transformer.TransformModuleFilesToModel([]transformer.ModuleFile{
			{Name: "core.fga", Contents: core},
			{Name: "b.fga", Contents: tc.contents},
		}, "1.2")
		if err == nil {
			t.Errorf("%s: expected a conflict error", tc.name)

			continue
		}

		var multi *transformer.ModuleValidationMultipleError
		if !errors.As(err, &multi) || len(multi.Errors) != 1 {
			t.Errorf("%s: expected exactly one module error, got %v", tc.name, err)

			continue
		}

		var single *transformer.ModuleTransformationSingleError
		if !errors.As(multi.Errors[0], &single) {
			t.Errorf("%s: unexpected error type %T (%v)", tc.name, multi.Errors[0], multi.Errors[0])

			continue
		}

		lines := strings.Split(tc.contents, "\n")
		if single.File != "b.fga" || single.Line.Start != tc.wantLine {
			t.Errorf("%s: input b.fga=%q error %q\n  observed file=%s line=%d (text %q)\n  required file=b.fga line=%d (text %q)",
				tc.name, tc.contents, single.Msg, single.File, single.Line.Start, lines[single.Line.Start],
				tc.wantLine, lines[tc.wantLine])
		}
	}
}
