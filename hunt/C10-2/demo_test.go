package graph

import (
	"fmt"
	"testing"

	language "github.com/openfga/language/pkg/go/transformer"
)

// Property C10: "a direct assignment yields one direct edge per distinct target carrying the ordered set of its
// condition names ('none' for unconditioned)", for all accepted models "including ... mixed conditioned/unconditioned
// restrictions".
// "none" is a legal condition name (IDENTIFIER in the DSL, passes validation.ValidateRelationshipCondition). The edge
// uses the same string as the marker for "unconditioned", so [user with none] is drawn exactly like [user], and
// [user, user with none] carries a single entry instead of two.
func TestHuntC10ConditionNamedNone(t *testing.T) {
	build := func(restriction string) string {
		dsl := `model
  schema 1.1
type user
type doc
  relations
    define viewer: ` + restriction + `
condition none(x: int) {
  x < 1
}
condition other(x: int) {
  x < 1
}
`
		g, err := NewWeightedAuthorizationModelGraphBuilder().Build(language.MustTransformDSLToProto(dsl))
		if err != nil {
			t.Fatalf("%s: model not accepted: %v", restriction, err)
		}
		edges := g.GetEdges()["doc#viewer"]
		if len(edges) != 1 {
			t.Fatalf("%s: want one direct edge, got %d", restriction, len(edges))
		}
		return fmt.Sprint(edges[0].GetConditions())
	}

	// control: with any other name the three restrictions are told apart
	if a, b, c := build("[user]"), build("[user with other]"), build("[user, user with other]"); a == b || a == c || b == c {
		t.Fatalf("control failed: %s %s %s", a, b, c)
	}

	uncond := build("[user]")
	cond := build("[user with none]")
	mixed := build("[user, user with none]")
	if uncond == cond {
		t.Errorf("define viewer: [user with none] (conditioned only) yields conditions %s, the same as define viewer: [user] (unconditioned) %s; the edge must carry the condition name and must not say the restriction is unconditioned",
			cond, uncond)
	}
	if mixed == uncond || mixed == cond {
		t.Errorf("define viewer: [user, user with none] (two restrictions: unconditioned and conditioned) yields conditions %s with one entry; required: the unconditioned marker and the condition name, two entries (as %s for a condition called other)",
			mixed, build("[user, user with other]"))
	}
}
